"""C14 - PVV / KCV / key combination: TSP layout, result width constants, delegation, cipher API.
The numerical clauses (decimalisation values, KCV digits, XOR algebra) are not decided."""
from __future__ import annotations

import ast

from ..lin import Lin
from ..avals import *   # noqa
from ..decide import Runs, need_ge0, need_eq0, definite, soft
from ..report import Ob, PROVED, REFUTED, UNDECIDED, func_where, ASSUMPTIONS, Failure
from ..model import norm_text, AnalysisError
from .c13 import cipher_ob, _whole_key


def check(prog, res, tier):
    res.assumptions = [ASSUMPTIONS['A4'], ASSUMPTIONS['A5']]
    res.explanation = (
        'String-descriptor abstract interpretation of the transformed security parameter for symbolic PANs (13-19 digits), '
        'key index 0-9 and PINs of 4-12 digits: it must be 11 PAN digits (check digit excluded) ++ key index ++ the leftmost '
        'four PIN digits, 16 hex digits in total (one DES block).  Sibling constants of the two decimalisation passes, '
        'argument wiring of to_pvv and the cipher API table are checked structurally.  No numeric value is decided.')
    pvv_fi = prog.func('pinblock.calculate_pvv')
    tfi = prog.func('pinblock._get_tsp') if prog.has_func('pinblock._get_tsp') else pvv_fi

    def entry_t(it):
        card = it.sym_str('card_number', lo=13, hi=19, charset='digits')
        ki = it.sym_int('key_table_index', 0, 9)
        pin = it.sym_str('pin', lo=4, hi=12, charset='digits')
        key = it.sym_str('pvv_key', lo=32, hi=32, charset='hex')
        it.user.update(card=card, ki=ki, pin=pin)
        it.call_function(pvv_fi, [pin, key, ki, card], {})
        return None

    def tsp_of(p):
        """the value handed to unhexlify that is built from the card number: the TSP"""
        card = p.interp.user['card'].segs[0].src
        for e in p.events:
            if e.kind == 'ext-call' and e.data['callee'] in ('binascii.unhexlify', 'binascii.a2b_hex') and e.data['args']:
                a = p.interp.resolve(e.data['args'][0])
                if isinstance(a, SeqV) and any(isinstance(g, Sl) and g.src is card for g in a.segs):
                    return a
        return None
    runs_t = Runs(prog, entry_t, res=res)

    def chk_t(p, mode):
        if p.outcome == 'loopback':
            return []
        v = tsp_of(p)
        if v is None:
            return [definite('no transformed security parameter built from the card number reaches the cipher')] \
                if p.outcome == 'return' else []
        st = p.store
        card = p.interp.user['card'].segs[0].src
        pin = p.interp.user['pin'].segs[0].src
        ki = p.interp.user['ki']
        if not (isinstance(v, SeqV) and v.kind == 'str'):
            return [definite(f'TSP is {v!r}')]
        fails = []
        fails += need_eq0(st, v.length() - 16, f'TSP is {st.canon(v.length())} characters in {st.bounds(v.length())}, not the 16 hex '
                                               f'digits of one DES block (PINs longer than four digits)')
        segs = list(v.segs)
        if len(segs) != 3:
            return fails + [definite(f'TSP has {len(segs)} parts, expected PAN part, key index, PIN part: {v!r}')]
        a, b, c = segs
        if not (isinstance(a, Sl) and a.src is card):
            fails.append(definite(f'first TSP part is {a!r}, not PAN digits'))
        else:
            fails += need_eq0(st, a.hi - (card.length - 1), 'PAN part of the TSP does not exclude exactly the check digit')
            fails += need_eq0(st, a.hi - a.lo - 11, f'PAN part of the TSP has {st.canon(a.hi - a.lo)} digits, not the 11 rightmost')
        if not (isinstance(b, Num) and b.val is not None and st.decide_eq0(b.val - ki.lin) is True and b.base == 10):
            fails.append(definite(f'middle TSP part is {b!r}, not the key index'))
        else:
            fails += need_eq0(st, b.width - 1, 'key index is not one digit wide')
        if not (isinstance(c, Sl) and c.src is pin):
            fails.append(definite(f'last TSP part is {c!r}, not PIN digits'))
        else:
            fails += need_eq0(st, c.lo, 'PIN part of the TSP does not start with the leftmost PIN digit')
            fails += need_eq0(st, c.hi - 4, f'PIN part of the TSP is pin[0:{st.canon(c.hi)}], not the leftmost four digits')
        return fails
    res.add(runs_t.judge('C14.a', 'TSP = 11 rightmost PAN digits excluding the check digit ++ key index ++ leftmost 4 PIN digits (16 digits)',
                         func_where(tfi), "f'{rightmost_11}{key_table_index}{pin[:4]}'", chk_t,
                         sample=lambda ps: [repr(tsp_of(p)) for p in ps][:2], unknown_ok=lambda u: True))

    # ---- C14.b result width constants
    pfi = prog.func('pinblock.calculate_pvv')
    guards, bounds = [], []

    def const_of(node):
        if isinstance(node, ast.Constant):
            return node
        if isinstance(node, ast.Name):
            r = prog.resolve_name(pfi.module, node.id)
            if r is not None and r[0] == 'const' and isinstance(r[1], ast.Constant):
                return r[1]
            # a local bound once to a literal
            for m in ast.walk(pfi.node):
                if isinstance(m, ast.Assign) and len(m.targets) == 1 and isinstance(m.targets[0], ast.Name) \
                        and m.targets[0].id == node.id and isinstance(m.value, ast.Constant):
                    return m.value
        return None
    for n in ast.walk(pfi.node):
        if isinstance(n, ast.Compare) and len(n.ops) == 1 and isinstance(n.ops[0], ast.Lt) and isinstance(n.left, ast.Call) \
                and isinstance(n.left.func, ast.Name) and n.left.func.id == 'len' and const_of(n.comparators[0]) is not None:
            guards.append(const_of(n.comparators[0]).value)
        if isinstance(n, ast.Subscript) and isinstance(n.slice, ast.Slice) and n.slice.upper is not None and const_of(n.slice.upper) is not None \
                and (n.slice.lower is None or (isinstance(n.slice.lower, ast.Constant) and n.slice.lower.value == 0)):
            par = getattr(n, '_parent', None)
            if isinstance(par, ast.Call) and isinstance(par.func, ast.Attribute) and par.func.attr == 'join' or isinstance(par, ast.Return):
                bounds.append(const_of(n.slice.upper).value)
    ob = Ob('C14.b', 'PVV: the second decimalisation pass runs whenever fewer than 4 digits were found and the result is the first 4',
            func_where(pfi), "if len(values_pass1) < 4: ...; ''.join(values_pass1[0:4])")
    if not guards and not bounds:
        # the decimalisation is not written as "second pass if fewer than N, then first N" any more: this sibling-constant
        # rule has nothing to compare (documented limit, DESIGN 13d); the obligation is not counted
        res.note('C14.b not applicable: calculate_pvv has no `len(..) < N` guard / `[0:N]` result slice to compare')
        ob = None
    elif not guards or not bounds:
        ob.verdict, ob.detail = UNDECIDED, f'guard/slice constants not recognised (guards={guards}, bounds={bounds})'
    elif guards == [4] and bounds == [4]:
        ob.verdict, ob.detail = PROVED, 'guard constant 4 == slice bound 4'
    else:
        ob.verdict, ob.detail, ob.witness = REFUTED, f'second-pass guard {guards} and result slice {bounds} do not both equal 4', \
            {'guards': guards, 'bounds': bounds}
    if ob is not None:
        res.add(ob)

    # ---- C14.c delegation
    mci = prog.cls('pinblock.VisaPVVPinBlockMixin')
    to_pvv = mci.lookup('to_pvv')[1]
    captured = {}

    def pvv_summary(it, fi, args, kwargs, node, self_obj):
        names = [a.arg for a in fi.node.args.args]
        bound = dict(zip(names, args))
        bound.update({k: v for k, v in kwargs.items() if k != '**'})
        it.user['pvv_call'] = bound
        from .. import seqops
        return seqops.opaque(it, 'str', 4, 'pvv')

    def entry_d(it):
        ci = prog.cls('pinblock.Iso0TDESPinBlockWithVisaPVV')
        pin = it.sym_str('pin', lo=4, hi=12, charset='digits')
        card = it.sym_str('card_number', lo=13, hi=19, charset='digits')
        obj = it.instantiate(ci, [pin], {'card_number': card}, None)
        key = it.sym_str('pvv_key', lo=32, hi=32, charset='hex')
        ki = it.sym_int('key_index', 0, 9)
        it.user.update(pin=pin, card=card, key=key, ki=ki)
        return it.call_function(to_pvv, [key], {'key_index': ki}, self_obj=obj)
    runs_d = Runs(prog, entry_d, summaries={'pinblock.calculate_pvv': pvv_summary}, res=res)

    def chk_d(p, mode):
        if p.outcome != 'return':
            return [definite(f'to_pvv raises {p.value!r}')] if p.outcome == 'raise' else []
        b = p.interp.user.get('pvv_call')
        if b is None:
            return [definite('to_pvv does not delegate to calculate_pvv')]
        u = p.interp.user
        fails = []
        for prm, want, name in (('pin', u['pin'], 'the PIN'), ('pvv_key', u['key'], 'the PVV key'),
                                ('card_number', u['card'], 'the card number')):
            got = b.get(prm)
            if got is not want and not (isinstance(got, SeqV) and isinstance(want, SeqV) and repr(got) == repr(want)):
                fails.append(definite(f'calculate_pvv parameter {prm} receives {got!r}, not {name}'))
        got = b.get('key_index')
        if not (isinstance(got, IntV) and p.store.decide_eq0(got.lin - u['ki'].lin) is True):
            fails.append(definite(f'calculate_pvv parameter key_index receives {got!r}'))
        return fails
    res.add(runs_d.judge('C14.c', 'to_pvv passes the PIN, key, key index and card number into the matching parameters of calculate_pvv',
                         func_where(to_pvv), 'calculate_pvv(self.pin, pvv_key, key_index, card_number)', chk_d))

    # ---- C14.d cipher API
    for q in ('pinblock.calculate_pvv', 'key.calculate_kcv', 'key.encrypt_key'):
        if prog.has_func(q):
            fi = prog.func(q)
            res.add(cipher_ob_generic(prog, res, fi))

    # key combination is an XOR fold
    if prog.has_func('key.get_zone_master_key'):
        zfi = prog.func('key.get_zone_master_key')
        ob = Ob('C14.d', 'key components are combined with XOR only', func_where(zfi), 'int(p1, 16) ^ int(key_part, 16)',
                rule='C14.d.xor')
        ops = [type(n.op).__name__ for n in ast.walk(zfi.node) if isinstance(n, (ast.BinOp, ast.AugAssign))
               and not isinstance(n.op, (ast.Mult, ast.Mod, ast.Add))]
        if ops and all(o == 'BitXor' for o in ops):
            ob.verdict, ob.detail = PROVED, f'{len(ops)} combining operator(s), all XOR'
        elif not ops:
            ob.verdict, ob.detail = UNDECIDED, 'no combining operator found'
        else:
            ob.verdict, ob.detail, ob.witness = REFUTED, f'components are combined with {ops}', {'ops': ops}
        res.add(ob)


def cipher_ob_generic(prog, res, fi):
    def entry(it):
        args = []
        for prm in fi.node.args.args:
            n = prm.arg
            if n == 'pin':
                args.append(it.sym_str(n, lo=4, hi=4, charset='digits'))
            elif n == 'card_number':
                args.append(it.sym_str(n, lo=13, hi=19, charset='digits'))
            elif n == 'key_index':
                args.append(it.sym_int(n, 0, 9))
            elif n == 'binary_key':
                args.append(it.sym_bytes(n, lo=16, hi=24))
            elif n == 'kvc_length':
                args.append(IntV(6))
            else:
                args.append(it.sym_str(n, lo=32, hi=32, charset='hex'))
        return it.call_function(fi, args, {})
    runs = Runs(prog, entry, res=res)

    def chk(p, mode):
        algs = [e.data['callee'].split('.')[-1] for e in p.evs('ext-call') if e.data['callee'].split('.')[-1] in
                ('TripleDES', 'AES', 'DES', 'Blowfish', 'ARC4', 'CAST5', 'IDEA', 'SEED', 'Camellia')]
        modes_ = [e.data['callee'].split('.')[-1] for e in p.evs('ext-call') if '.modes.' in e.data['callee']]
        meths = [e.data['name'] for e in p.evs('method') if e.data['name'] in ('encryptor', 'decryptor')]
        fails = []
        if algs != ['TripleDES']:
            fails.append(definite(f'cipher algorithm is {algs}, expected TripleDES'))
        if modes_ != ['ECB']:
            fails.append(definite(f'cipher mode is {modes_}, expected ECB'))
        if meths != ['encryptor']:
            fails.append(definite(f'uses {meths}, expected .encryptor()'))
        # the cipher key must be the caller's key material, whole and unmodified
        for e in p.evs('ext-call'):
            if e.data['callee'].split('.')[-1] in ('TripleDES', 'AES') and e.data['args']:
                k = p.interp.resolve(e.data['args'][0])
                if not _whole_key(p, k):
                    fails.append(definite(f'the cipher is keyed with {k!r}, not the key supplied by the caller', e.node))
        return fails
    return runs.judge('C14.d', f'{fi.short} encrypts with TripleDES in ECB mode', func_where(fi),
                      'Cipher(TripleDES(key), modes.ECB()).encryptor()', chk, rule=f'C14.d.{fi.short}',
                      unknown_ok=lambda u: True)
