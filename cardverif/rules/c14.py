"""C14 - PVV / KCV / key combination: TSP layout, result width constants, delegation, cipher API.
The numerical clauses (decimalisation values, KCV digits, XOR algebra) are not decided."""
from __future__ import annotations

import ast

from ..lin import Lin
from ..avals import *   # noqa
from ..decide import benign_unknown, Runs, need_ge0, need_eq0, definite, soft
from ..report import Ob, PROVED, REFUTED, UNDECIDED, func_where, ASSUMPTIONS, Failure
from ..model import norm_text, AnalysisError
from .c13 import cipher_ob, _whole_key


def check(prog, res, tier):
    res.assumptions = [ASSUMPTIONS['A4'], ASSUMPTIONS['A5']]
    res.explanation = (
        'String-descriptor abstract interpretation of the transformed security parameter for symbolic PANs (13-19 digits), '
        'key index 0-9 and PINs of 4-12 digits: it must be 11 PAN digits (check digit excluded) ++ key index ++ the leftmost '
        'four PIN digits, 16 hex digits in total (one DES block).  Sibling constants of the two decimalisation passes, '
        'argument wiring of to_pvv and the cipher API table are checked structurally.  No numeric value is decided.')
    pvv_fi = prog.func('pinblock.calculate_pvv')
    tfi = prog.func('pinblock._get_tsp') if prog.has_func('pinblock._get_tsp') else pvv_fi

    def entry_t(it):
        card = it.sym_str('card_number', lo=13, hi=19, charset='digits')
        ki = it.sym_int('key_table_index', 0, 9)
        pin = it.sym_str('pin', lo=4, hi=12, charset='digits')
        key = it.sym_str('pvv_key', lo=32, hi=32, charset='hex')
        it.user.update(card=card, ki=ki, pin=pin)
        it.call_function(pvv_fi, [pin, key, ki, card], {})
        return None

    def tsp_of(p):
        """the value handed to unhexlify that is built from the card number: the TSP"""
        card = p.interp.user['card'].segs[0].src
        for e in p.events:
            if e.kind == 'ext-call' and e.data['callee'] in ('binascii.unhexlify', 'binascii.a2b_hex') and e.data['args']:
                a = p.interp.resolve(e.data['args'][0])
                if isinstance(a, SeqV) and any(isinstance(g, Sl) and g.src is card for g in a.segs):
                    return a
        return None
    runs_t = Runs(prog, entry_t, res=res)

    def chk_t(p, mode):
        if p.outcome == 'loopback':
            return []
        v = tsp_of(p)
        if v is None:
            return [definite('no transformed security parameter built from the card number reaches the cipher')] \
                if p.outcome == 'return' else []
        st = p.store
        card = p.interp.user['card'].segs[0].src
        pin = p.interp.user['pin'].segs[0].src
        ki = p.interp.user['ki']
        if not (isinstance(v, SeqV) and v.kind == 'str'):
            return [definite(f'TSP is {v!r}')]
        fails = []
        fails += need_eq0(st, v.length() - 16, f'TSP is {st.canon(v.length())} characters in {st.bounds(v.length())}, not the 16 hex '
                                               f'digits of one DES block (PINs longer than four digits)')
        segs = list(v.segs)
        if len(segs) != 3:
            return fails + [definite(f'TSP has {len(segs)} parts, expected PAN part, key index, PIN part: {v!r}')]
        a, b, c = segs
        if not (isinstance(a, Sl) and a.src is card):
            fails.append(definite(f'first TSP part is {a!r}, not PAN digits'))
        else:
            fails += need_eq0(st, a.hi - (card.length - 1), 'PAN part of the TSP does not exclude exactly the check digit')
            fails += need_eq0(st, a.hi - a.lo - 11, f'PAN part of the TSP has {st.canon(a.hi - a.lo)} digits, not the 11 rightmost')
        if not (isinstance(b, Num) and b.val is not None and st.decide_eq0(b.val - ki.lin) is True and b.base == 10):
            fails.append(definite(f'middle TSP part is {b!r}, not the key index'))
        else:
            fails += need_eq0(st, b.width - 1, 'key index is not one digit wide')
        if not (isinstance(c, Sl) and c.src is pin):
            fails.append(definite(f'last TSP part is {c!r}, not PIN digits'))
        else:
            fails += need_eq0(st, c.lo, 'PIN part of the TSP does not start with the leftmost PIN digit')
            fails += need_eq0(st, c.hi - 4, f'PIN part of the TSP is pin[0:{st.canon(c.hi)}], not the leftmost four digits')
        return fails
    res.add(runs_t.judge('C14.a', 'TSP = 11 rightmost PAN digits excluding the check digit ++ key index ++ leftmost 4 PIN digits (16 digits)',
                         func_where(tfi), "f'{rightmost_11}{key_table_index}{pin[:4]}'", chk_t,
                         sample=lambda ps: [repr(tsp_of(p)) for p in ps][:2], unknown_ok=benign_unknown))

    # ---- C14.b decimalisation: first four decimal digits, then letters a-f as 0-5, on closed forms (scan.py)
    pfi = prog.func('pinblock.calculate_pvv')
    from .. import scan
    ob = Ob('C14.b', 'PVV: the result is the first four characters of (decimal digits of the hex ciphertext in order) ++ (its letters in '
                     'order, a-f as 0-5): always four decimal digits', func_where(pfi),
            "values_pass1 = [digits]; if len(values_pass1) < 4: values_pass1 += [str(int(v, 16) - 10) for letters]; ''.join(values_pass1[0:4])",
            rule='C14.b.scan')
    v = scan.analyse_decimalisation(prog, pfi)
    ob.detail = v.detail
    if v.status == 'proved':
        ob.verdict = PROVED
        res.count(evaluations=(v.facts or {}).get('cells', 0))
    elif v.status == 'refuted':
        ob.verdict, ob.witness = REFUTED, v.witness
    else:
        ob.verdict = UNDECIDED
    res.add(ob)

    # ---- C14.c delegation
    mci = prog.cls('pinblock.VisaPVVPinBlockMixin')
    to_pvv = mci.lookup('to_pvv')[1]
    captured = {}

    def pvv_summary(it, fi, args, kwargs, node, self_obj):
        names = [a.arg for a in fi.node.args.args]
        bound = dict(zip(names, args))
        bound.update({k: v for k, v in kwargs.items() if k != '**'})
        it.user['pvv_call'] = bound
        from .. import seqops
        return seqops.opaque(it, 'str', 4, 'pvv')

    def entry_d(it):
        ci = prog.cls('pinblock.Iso0TDESPinBlockWithVisaPVV')
        pin = it.sym_str('pin', lo=4, hi=12, charset='digits')
        card = it.sym_str('card_number', lo=13, hi=19, charset='digits')
        obj = it.instantiate(ci, [pin], {'card_number': card}, None)
        key = it.sym_str('pvv_key', lo=32, hi=32, charset='hex')
        ki = it.sym_int('key_index', 0, 9)
        it.user.update(pin=pin, card=card, key=key, ki=ki)
        return it.call_function(to_pvv, [key], {'key_index': ki}, self_obj=obj)
    runs_d = Runs(prog, entry_d, summaries={'pinblock.calculate_pvv': pvv_summary}, res=res)

    def chk_d(p, mode):
        if p.outcome != 'return':
            return [definite(f'to_pvv raises {p.value!r}')] if p.outcome == 'raise' else []
        b = p.interp.user.get('pvv_call')
        if b is None:
            return [definite('to_pvv does not delegate to calculate_pvv')]
        u = p.interp.user
        fails = []
        for prm, want, name in (('pin', u['pin'], 'the PIN'), ('pvv_key', u['key'], 'the PVV key'),
                                ('card_number', u['card'], 'the card number')):
            got = b.get(prm)
            if got is not want and not (isinstance(got, SeqV) and isinstance(want, SeqV) and repr(got) == repr(want)):
                fails.append(definite(f'calculate_pvv parameter {prm} receives {got!r}, not {name}'))
        got = b.get('key_index')
        if not (isinstance(got, IntV) and p.store.decide_eq0(got.lin - u['ki'].lin) is True):
            fails.append(definite(f'calculate_pvv parameter key_index receives {got!r}'))
        return fails
    res.add(runs_d.judge('C14.c', 'to_pvv passes the PIN, key, key index and card number into the matching parameters of calculate_pvv',
                         func_where(to_pvv), 'calculate_pvv(self.pin, pvv_key, key_index, card_number)', chk_d))

    # ---- C14.d cipher API
    for q in ('pinblock.calculate_pvv', 'key.calculate_kcv', 'key.encrypt_key'):
        if prog.has_func(q):
            fi = prog.func(q)
            res.add(cipher_ob_generic(prog, res, fi))

    # ---- C14.e key combination: the clear key is the XOR of all components, at the components' width
    if prog.has_func('key.get_zone_master_key'):
        zfi = prog.func('key.get_zone_master_key')
        for ob in zmk_obs(prog, res, zfi):
            res.add(ob)
    if prog.has_func('key.get_enc_zone_master_key'):
        res.add(enc_zmk_ob(prog, res, prog.func('key.get_enc_zone_master_key')))
    if prog.has_func('key.calculate_kcv'):
        res.add(kcv_ob(prog, res, prog.func('key.calculate_kcv')))


class NotXor(Exception):
    """the value is built with a bit operator other than XOR"""


def _one_opq(v, head):
    """SeqV consisting of one opaque segment whose descriptor is the tuple (head, ...) -> the descriptor."""
    if isinstance(v, SeqV) and len(v.segs) == 1 and isinstance(v.segs[0], Opq) and isinstance(v.segs[0].desc, tuple) \
            and v.segs[0].desc and v.segs[0].desc[0] == head:
        return v.segs[0].desc
    return None


def _part_of(p, v, parts):
    """name of the component that `v` is the whole of, else None"""
    if isinstance(v, SeqV) and len(v.segs) == 1 and isinstance(v.segs[0], Sl):
        g = v.segs[0]
        for name, src in parts.items():
            if g.src is src and p.store.decide_eq0(g.lo) is True and p.store.decide_eq0(g.hi - src.length) is True:
                return name
    return None


def xor_bytes_form(p, v, parts):
    """bytes value -> (multiset of component names XORed bytewise, length in bytes) or None"""
    if not (isinstance(v, SeqV) and v.kind == 'bytes'):
        return None
    if all((isinstance(g, Rep) and g.unit == b'\x00') or (isinstance(g, Lit) and set(g.data) <= {0}) for g in v.segs):
        return [], v.length()
    d = _one_opq(v, 'xorb')
    ops = list(d[1]) if d else [v]
    names = []
    for o in ops:
        u = _one_opq(o, 'unhexlify')
        if u is None:
            # unhexlify of the hex rendering of a XOR of integers
            return None
        inner = u[1]
        n = _part_of(p, inner, parts)
        if n is not None:
            names.append(n)
            continue
        f = xor_hex_form(p, inner, parts)
        if f is None or p.store.decide_eq0(f[1] - o.length().scale(2)) is not True:
            return None
        names += f[0]
    return names, v.length()


def xor_hex_form(p, v, parts):
    """str value -> (list of component names whose XOR it renders in hex, width in hex digits) or None.
    Recognised: zero-filled base-16 numeral of a chain of integer XORs of int(component, 16); hexlify of a bytewise XOR
    of unhexlify(component)."""
    it = p.interp
    if not (isinstance(v, SeqV) and v.kind == 'str'):
        return None
    if v.is_lit():
        return ([], Lin.const(len(v.lit_value()))) if set(v.lit_value()) <= {'0'} else None
    segs = list(v.segs)
    fill = Lin.const(0)
    if len(segs) == 2 and isinstance(segs[0], Rep) and segs[0].unit == '0':
        fill = segs[0].count
        segs = segs[1:]
    if len(segs) == 1 and isinstance(segs[0], Num) and segs[0].base == 16 and segs[0].val is not None and \
            (segs[0].fill == '0' or segs[0].minw <= 1):
        names = []
        for a in it.xor_atoms(segs[0].val):
            sy = a.syms()
            o = it.origin.get(sy[0]) if len(sy) == 1 and a == Lin.sym(sy[0]) else None
            n = _part_of(p, o[1], parts) if isinstance(o, tuple) and o and o[0] == 'int' and o[2] == 16 else None
            if isinstance(o, tuple) and o and o[0] == 'bitop':
                raise NotXor({'BitOr': '|', 'BitAnd': '&', 'LShift': '<<', 'RShift': '>>'}.get(o[1], o[1]))
            if n is None:
                return None
            names.append(n)
        return names, fill + segs[0].width
    if fill != Lin.const(0):
        return None
    d = _one_opq(v, 'hexlify') or _one_opq(v, 'decode')
    while d is not None and d[0] == 'decode':
        d = _one_opq(d[1], 'hexlify') or _one_opq(d[1], 'decode') if len(d) > 1 and isinstance(d[1], SeqV) else None
    if d is None:
        return None
    f = xor_bytes_form(p, d[1], parts)
    if f is None:
        return None
    return f[0], f[1].scale(2)


def zmk_obs(prog, res, zfi):
    """get_zone_master_key for 0-3 components of 32 or 48 hex digits (double / triple length 3DES keys)."""
    obs = []
    for L in (32, 48):
        for k in (0, 1, 2, 3):
            def entry(it, L=L, k=k):
                parts = [it.sym_str(f'component{i + 1}', lo=L, hi=L, charset='hex') for i in range(k)]
                it.user['parts'] = {f'component{i + 1}': s.segs[0].src for i, s in enumerate(parts)}
                return it.call_function(zfi, parts, {})

            def kcv_summary(it, fi, args, kwargs, node, self_obj):
                it.user.setdefault('kcv_calls', []).append((list(args), dict(kwargs)))
                from .. import seqops
                return seqops.opaque(it, 'str', 6, 'kcv')
            runs = Runs(prog, entry, summaries={'key.calculate_kcv': kcv_summary}, res=res)

            def chk(p, mode, L=L, k=k):
                if p.outcome != 'return':
                    return [definite(f'get_zone_master_key raises {p.value!r}')] if p.outcome == 'raise' else []
                v = p.interp.resolve(p.value)
                if not (isinstance(v, TupleV) and len(v.items) == 2):
                    return [definite(f'get_zone_master_key returns {v!r}, not (clear key, key check value)')]
                parts = p.interp.user['parts']
                want = sorted(parts)
                clear = p.interp.resolve(v.items[0])
                try:
                    f = xor_hex_form(p, clear, parts)
                except NotXor as ex:
                    return [definite(f'the components are combined with the operator {ex}, not with XOR')]
                if f is None:
                    if k >= 2:
                        srcs = set(map(id, parts.values()))
                        for e in p.events:
                            if e.kind != 'make-set' or not e.under(zfi.short):
                                continue
                            hit = set()
                            for x in e.data['of']:
                                x = p.interp.resolve(x)
                                o = p.interp.origin.get(x.lin.syms()[0]) if isinstance(x, IntV) and len(x.lin.syms()) == 1 else None
                                if o and o[0] == 'int' and isinstance(o[1], SeqV) and len(o[1].segs) == 1 and \
                                        isinstance(o[1].segs[0], Sl) and id(o[1].segs[0].src) in srcs:
                                    hit.add(id(o[1].segs[0].src))
                                elif isinstance(x, SeqV) and len(x.segs) == 1 and isinstance(x.segs[0], Sl) and id(x.segs[0].src) in srcs:
                                    hit.add(id(x.segs[0].src))
                            folded = any(x.kind == 'for-iter' and p.interp.resolve(x.data['iterable']) is e.data['result'] for x in p.events)
                            carried = isinstance(clear, SeqV) and any(isinstance(g, Num) and g.val is not None and
                                                                      any('@loop' in sy for sy in g.val.syms()) for g in clear.segs)
                            if len(hit) >= 2 and folded and (carried or mode == 'unroll'):
                                return [definite('the key components are collected in a set before they are combined: a component '
                                                 'that is supplied twice is combined once instead of cancelling out (a ^ a = 0), '
                                                 'so the clear key is not the XOR of all components', e.node, firm=True)]
                    return [soft(f'clear key {clear!r} is not recognised as a hexadecimal XOR of the components')]
                fails = []
                if sorted(f[0]) != want:
                    fails.append(definite(f'the clear key combines {sorted(f[0])}, not the XOR of every component once {want}'))
                width = L if k else 32
                fails += need_eq0(p.store, f[1] - width,
                                  f'the clear key has {p.store.canon(f[1])} hex digits in {p.store.bounds(f[1])}, not the '
                                  f'{width} of its {k} component(s): leading zeros lost or the value truncated')
                calls = p.interp.user.get('kcv_calls', [])
                if len(calls) != 1 or not calls[0][0]:
                    fails.append(definite(f'calculate_kcv is called {len(calls)} times'))
                else:
                    kb = p.interp.resolve(calls[0][0][0])
                    try:
                        g = xor_bytes_form(p, kb, parts)
                    except NotXor as ex:
                        g = None
                    if g is None:
                        fails.append(soft(f'the key check value is computed over {kb!r}'))
                    else:
                        if sorted(g[0]) != want:
                            fails.append(definite(f'the key check value is computed over the XOR of {sorted(g[0])}, not {want}'))
                        fails += need_eq0(p.store, g[1].scale(2) - width,
                                          f'the key check value is computed over a {p.store.canon(g[1])}-byte key, the '
                                          f'components have {width // 2} bytes')
                    kv = p.interp.resolve(v.items[1])
                    if not (isinstance(kv, SeqV) and len(kv.segs) == 1 and isinstance(kv.segs[0], Opq) and kv.segs[0].desc == 'kcv'):
                        fails.append(definite(f'the second result is {kv!r}, not the value returned by calculate_kcv'))
                return fails
            obs.append(runs.judge('C14.e', f'the clear zone master key is the XOR of its {k} component(s) of {L} hex digits, '
                                           f'rendered in {L if k else 32} digits, and the KCV is taken over those bytes',
                                  func_where(zfi), 'p1 = f"{int(p1, 16) ^ int(key_part, 16):0{width}x}"', chk,
                                  rule=f'C14.e.xor[{L},{k}]'))
    return obs


def enc_zmk_ob(prog, res, fi):
    def entry(it):
        m = it.sym_str('master_key', lo=32, hi=32, charset='hex')
        parts = [it.sym_str(f'component{i + 1}', lo=32, hi=32, charset='hex') for i in range(2)]
        it.user.update(master=m, parts=parts)
        return it.call_function(fi, [m] + parts, {})

    def zmk_summary(it, f, args, kwargs, node, self_obj):
        it.user.setdefault('zmk_calls', []).append((list(args), dict(kwargs)))
        clear = it.sym_str('clear_key', lo=32, hi=32, charset='hex')
        kcv = it.sym_str('kcv', lo=6, hi=6, charset='hex')
        it.user.update(clear=clear, kcv=kcv)
        return TupleV([clear, kcv])

    def enc_summary(it, f, args, kwargs, node, self_obj):
        names = [a.arg for a in f.node.args.args]
        b = dict(zip(names, args))
        b.update({k: v for k, v in kwargs.items() if k != '**'})
        it.user.setdefault('enc_calls', []).append(b)
        enc = it.sym_bytes('encrypted', lo=16, hi=16)
        it.user['enc'] = enc
        return enc
    runs = Runs(prog, entry, summaries={'key.get_zone_master_key': zmk_summary, 'key.encrypt_key': enc_summary}, res=res)

    def same(a, b):
        return a is b or (isinstance(a, SeqV) and isinstance(b, SeqV) and repr(a) == repr(b))

    def chk(p, mode):
        if p.outcome != 'return':
            return [definite(f'get_enc_zone_master_key raises {p.value!r}')] if p.outcome == 'raise' else []
        u = p.interp.user
        fails = []
        z = u.get('zmk_calls', [])
        if len(z) != 1:
            return [definite(f'get_zone_master_key is called {len(z)} times')]
        zargs = [p.interp.resolve(a) for a in z[0][0]]
        if len(zargs) != 2 or not all(same(a, b) for a, b in zip(zargs, u['parts'])):
            fails.append(definite(f'the components are combined from {zargs!r}, not the key parts given by the caller'))
        e = u.get('enc_calls', [])
        if len(e) != 1:
            return fails + [definite(f'encrypt_key is called {len(e)} times')]
        if not same(p.interp.resolve(e[0].get('key_to_encrypt')), u['clear']):
            fails.append(definite(f'encrypt_key encrypts {e[0].get("key_to_encrypt")!r}, not the combined clear key'))
        if not same(p.interp.resolve(e[0].get('master_key')), u['master']):
            fails.append(definite(f'encrypt_key is keyed with {e[0].get("master_key")!r}, not the master key'))
        v = p.interp.resolve(p.value)
        if not (isinstance(v, TupleV) and len(v.items) == 2):
            return fails + [definite(f'returns {v!r}')]
        r0 = p.interp.resolve(v.items[0])
        d = _one_opq(r0, 'hexlify')
        if not (d is not None and same(d[1], u['enc'])):
            fails.append(definite(f'the first result is {r0!r}, not the hex rendering of the encrypted key'))
        if not same(p.interp.resolve(v.items[1]), u['kcv']):
            fails.append(definite(f'the second result is {v.items[1]!r}, not the key check value of the clear key'))
        return fails
    return runs.judge('C14.e', 'the encrypted zone master key is encrypt_key(XOR of the components, master key) in hex, with '
                               'the KCV of the clear key', func_where(fi),
                      'enc_key = encrypt_key(plain_key, master_key)', chk, rule='C14.e.enc')


def hex_prefix_form(p, v):
    """str value -> (bytes value whose hex rendering it is a slice of, lo, hi | None for 'to the end') or None"""
    if not (isinstance(v, SeqV) and v.kind == 'str' and len(v.segs) == 1 and isinstance(v.segs[0], Opq)):
        return None
    d = v.segs[0].desc
    lo, hi = Lin.const(0), None
    for _ in range(4):
        if isinstance(d, tuple) and len(d) == 4 and d[0] == 'slice':
            # a slice of a slice composes; only prefixes are of interest here
            nlo, nhi = Lin.of(d[2]), Lin.of(d[3])
            lo, hi = lo + nlo, (nhi if hi is None else None)
            d = d[1]
            continue
        if isinstance(d, tuple) and d and d[0] == 'decode' and len(d) > 1 and isinstance(d[1], SeqV) and \
                len(d[1].segs) == 1 and isinstance(d[1].segs[0], Opq):
            d = d[1].segs[0].desc
            continue
        break
    if isinstance(d, tuple) and len(d) >= 2 and d[0] == 'hexlify' and isinstance(d[1], SeqV):
        return d[1], lo, hi
    return None


def kcv_ob(prog, res, fi):
    def entry(it):
        k = it.sym_bytes('binary_key', lo=16, hi=24)
        n = it.sym_int('kvc_length', 1, 16)
        it.user.update(n=n)
        return it.call_function(fi, [k, n], {})
    runs = Runs(prog, entry, res=res)

    def chk(p, mode):
        if p.outcome != 'return':
            return [definite(f'calculate_kcv raises {p.value!r}')] if p.outcome == 'raise' else []
        it = p.interp
        fails = []
        ups = [e for e in p.evs('method') if e.data['name'] == 'update']
        if len(ups) != 1 or not ups[0].data['args']:
            return [soft(f'{len(ups)} cipher update calls')]
        data = it.resolve(ups[0].data['args'][0])
        zero = isinstance(data, SeqV) and data.kind == 'bytes' and data.segs and all(
            (isinstance(g, Rep) and g.unit == b'\x00') or (isinstance(g, Lit) and set(g.data) <= {0}) for g in data.segs)
        if not zero:
            fails.append(definite(f'the key check value encrypts {data!r}, not zero bytes', ups[0].node))
        else:
            fails += need_ge0(p.store, data.length() - 8, 'fewer than one block of zeros is encrypted', ups[0].node)
        ct = it.resolve(ups[0].data.get('result'))
        f = hex_prefix_form(p, it.resolve(p.value))
        if f is None or not isinstance(ct, SeqV):
            return fails + [soft(f'calculate_kcv returns {p.value!r}: not recognised as a slice of the hex rendering of the ciphertext')]
        src, lo, hi = f
        from .. import seqops as _s
        if _s.seq_eq_structural(it, src, ct) is not True:
            # hexlify(ct[a:b]) is hexlify(ct)[2a:2b]: a prefix cut from the bytes before rendering
            sd = src.segs[0].desc if len(src.segs) == 1 and isinstance(src.segs[0], Opq) else None
            cd = ct.segs[0].desc if len(ct.segs) == 1 and isinstance(ct.segs[0], Opq) else None
            if isinstance(sd, tuple) and len(sd) == 4 and sd[0] == 'slice' and cd is not None and sd[1] == cd and hi is None:
                n = it.user['n'].lin
                a, b = Lin.of(sd[2]), Lin.of(sd[3])
                fails += need_eq0(p.store, a.scale(2) + lo, 'the key check value does not start at the first hex digit of the ciphertext')
                end = b.scale(2)
                if p.store.decide_eq0(end - n) is not True and p.store.decide_eq0(end - ct.length().scale(2)) is not True:
                    fails += need_eq0(p.store, end - n, f'the key check value is the rendering of {p.store.canon(b)} ciphertext bytes: '
                                                        f'{p.store.canon(end)} hex digits, not kvc_length')
                return fails
            fails.append(definite(f'the rendered value is {src!r}, not the ciphertext of the zero block'))
        fails += need_eq0(p.store, lo, f'the key check value starts at hex digit {p.store.canon(lo)} of the ciphertext, not at the first')
        if hi is not None:
            # [0:kvc_length], clipped by python when the rendering is shorter
            n = it.user['n'].lin
            if p.store.decide_eq0(hi - n) is not True and p.store.decide_eq0(hi - src.length().scale(2)) is not True:
                fails += need_eq0(p.store, hi - n, f'the key check value ends at hex digit {p.store.canon(hi)}, not at kvc_length')
        else:
            fails += need_ge0(p.store, it.user['n'].lin - src.length().scale(2),
                              'the whole rendering is returned although kvc_length asks for fewer digits')
        return fails
    return runs.judge('C14.e', 'the key check value is the leading kvc_length hex digits of the encryption of zero bytes',
                      func_where(fi), "hexlify(encryptor.update(b'\\x00' * 16) + encryptor.finalize())[0:kvc_length]", chk,
                      rule='C14.e.kcv', unknown_ok=benign_unknown)


def cipher_ob_generic(prog, res, fi):
    def entry(it):
        args = []
        for prm in fi.node.args.args:
            n = prm.arg
            if n == 'pin':
                args.append(it.sym_str(n, lo=4, hi=4, charset='digits'))
            elif n == 'card_number':
                args.append(it.sym_str(n, lo=13, hi=19, charset='digits'))
            elif n == 'key_index':
                args.append(it.sym_int(n, 0, 9))
            elif n == 'binary_key':
                args.append(it.sym_bytes(n, lo=16, hi=24))
            elif n == 'kvc_length':
                args.append(IntV(6))
            else:
                args.append(it.sym_str(n, lo=32, hi=32, charset='hex'))
        return it.call_function(fi, args, {})
    runs = Runs(prog, entry, res=res)

    def chk(p, mode):
        algs = [e.data['callee'].split('.')[-1] for e in p.evs('ext-call') if e.data['callee'].split('.')[-1] in
                ('TripleDES', 'AES', 'DES', 'Blowfish', 'ARC4', 'CAST5', 'IDEA', 'SEED', 'Camellia')]
        modes_ = [e.data['callee'].split('.')[-1] for e in p.evs('ext-call') if '.modes.' in e.data['callee']]
        meths = [e.data['name'] for e in p.evs('method') if e.data['name'] in ('encryptor', 'decryptor')]
        fails = []
        if p.outcome == 'raise' and not algs and not modes_ and not meths:
            return []          # refused before any cipher is set up: whether it may refuse is C14.e's question, not this one's
        if algs != ['TripleDES']:
            fails.append(definite(f'cipher algorithm is {algs}, expected TripleDES'))
        if modes_ != ['ECB']:
            fails.append(definite(f'cipher mode is {modes_}, expected ECB'))
        if meths != ['encryptor']:
            fails.append(definite(f'uses {meths}, expected .encryptor()'))
        # the cipher key must be the caller's key material, whole and unmodified
        for e in p.evs('ext-call'):
            if e.data['callee'].split('.')[-1] in ('TripleDES', 'AES') and e.data['args']:
                k = p.interp.resolve(e.data['args'][0])
                if not _whole_key(p, k):
                    fails.append(definite(f'the cipher is keyed with {k!r}, not the key supplied by the caller', e.node))
        return fails
    return runs.judge('C14.d', f'{fi.short} encrypts with TripleDES in ECB mode', func_where(fi),
                      'Cipher(TripleDES(key), modes.ECB()).encryptor()', chk, rule=f'C14.d.{fi.short}',
                      unknown_ok=benign_unknown)
