"""C10 - a bad record is reported with its own record number and raw bytes."""
from __future__ import annotations

import ast

from ..lin import Lin
from ..avals import *   # noqa
from ..decide import benign_unknown, Runs, need_ge0, need_eq0, definite, soft
from ..report import Ob, PROVED, REFUTED, UNDECIDED, func_where, ASSUMPTIONS, Failure
from ..model import norm_text, AnalysisError
from ..units import exc_key
from .. import seqops
from . import vbs, common, readers
from .vbs import ReaderRuns, reader_reads, concat_all, same_seq, MLIB, direct_framing, NOT_DIRECT


def check(prog, res, tier):
    res.assumptions = [ASSUMPTIONS['A1'], ASSUMPTIONS['A3'], ASSUMPTIONS['A4']]
    res.explanation = (
        'Affine typestate on the record counter: <Reader>.__next__ is interpreted abstractly for the k-th record '
        '(k symbolic, file position symbolic, blocked and unblocked, loads summarised by its escape set); at every '
        'raise of the library error the record_number argument must evaluate to k and binary_context_data to the '
        'concatenation of the bytes this call read; on return the counter is k+1 and last_record is prefix++record.')
    rr = ReaderRuns(prog, res)
    for cls in ('mciipm.VbsReader', 'mciipm.IpmReader'):
        ci = prog.cls(cls)
        nfi = ci.lookup('__next__')[1]
        for bl in (False, True):
            tag = 'blocked' if bl else 'vbs'
            runs = rr.runs(cls, bl)

            def lib_raises(p):
                return p.outcome == 'raise' and exc_key(p.value.cls) == MLIB

            def chk_a(p, mode):
                if not lib_raises(p):
                    return []
                exc = p.value
                k = p.interp.user['k']
                rn = exc.kwargs.get('record_number')
                node = exc.node
                if rn is None:
                    return [definite('library error raised without record_number', node)]
                rn = p.interp.resolve(rn)
                if not isinstance(rn, IntV):
                    return [definite(f'record_number is not an integer: {rn!r}', node)]
                return need_eq0(p.store, rn.lin - k.lin,
                                f'record_number={p.store.canon(rn.lin)} reported for a fault in record k '
                                f'(counter already advanced or not yet set)', node)
            sites = set()
            for p in runs.inv:
                if lib_raises(p):
                    sites.add(id(p.value.node))
            ob = runs.judge('C10.a', f'{ci.name}.__next__ ({tag}): every library error carries record_number == k '
                                     f'({len(sites)} raise sites)', func_where(nfi), 'record_number=...', chk_a,
                            rule=f'C10.a.{ci.name}.{tag}',
                            sample=lambda ps: [{'site': norm_text(p.value.node)[:90],
                                                'record_number': repr(p.value.kwargs.get('record_number'))}
                                               for p in ps if lib_raises(p)][:4])
            if ob.verdict == REFUTED and ob.construct:
                ob.construct = ob.construct[:160]
            if not sites and ob.verdict == PROVED:
                ob.verdict, ob.detail = UNDECIDED, 'no raise site of the library error found (anti-vacuity)'
            res.add(ob)

            def chk_b(p, mode):
                if not lib_raises(p):
                    return []
                exc = p.value
                ctx = exc.kwargs.get('binary_context_data')
                node = exc.node
                if ctx is None:
                    return [definite('library error raised without binary_context_data', node)]
                if not direct_framing(p):
                    return [soft(NOT_DIRECT, node)]
                reads = [r for _e, r, _s in reader_reads(p)]
                want = concat_all(p.interp, reads)
                if want is None:
                    return [soft('bytes read by the reader have an unexpected shape', node)]
                if not same_seq(p, ctx, want):
                    return [definite(f'binary_context_data is {ctx!r}, the bytes read for this record are {want!r}', node)]
                return []
            res.add(runs.judge('C10.b', f'{ci.name}.__next__ ({tag}): binary_context_data is the length prefix plus the '
                                        f'bytes read of the current record', func_where(nfi), 'binary_context_data=...',
                               chk_b, rule=f'C10.b.{ci.name}.{tag}'))

            seen_lr = {'n': 0, 'absent': 0}

            def chk_c(p, mode):
                if p.outcome != 'return':
                    return []
                obj = p.interp.user['reader']
                k = p.interp.user['k']
                fails = []
                rn = obj.fields.get('record_number')
                if not isinstance(rn, IntV):
                    return [definite('record_number is not an integer after a successful read')]
                fails += need_eq0(p.store, rn.lin - k.lin - 1, f'counter is {p.store.canon(rn.lin)} after returning record k')
                if not direct_framing(p):
                    return fails + [soft(NOT_DIRECT)]
                reads = [r for _e, r, _s in reader_reads(p)]
                want = concat_all(p.interp, reads)
                lr = obj.fields.get('last_record')
                if lr is None or isinstance(lr, ConstV) and lr.value is None:
                    # a reader that keeps no last_record hands the bytes to its error reports some other way (C10.b decides
                    # what the reports carry): nothing to compare here
                    seen_lr['absent'] += mode == 'inv'
                    return fails
                seen_lr['n'] += mode == 'inv'
                if want is None or not same_seq(p, lr, want):
                    fails.append(definite(f'last_record is {lr!r}, bytes read were {want!r}'))
                return fails
            res.add(runs.judge('C10.c', f'{ci.name}.__next__ ({tag}): a returned record advances the counter exactly once '
                                        f'and last_record == prefix ++ record', func_where(nfi),
                               'self.record_number += 1; self.last_record = ...', chk_c, rule=f'C10.c.{ci.name}.{tag}'))

    # ---- C10.c (iteration protocol): asking the reader for its iterator does not touch the record counter
    for cq in ('mciipm.VbsReader', 'mciipm.IpmReader'):
        ci_ = prog.cls(cq)
        r_ = ci_.lookup('__iter__')
        if not (r_ and r_[0] == 'method'):
            continue
        ifi_ = r_[1]

        def entry_it(it, cq=cq, ifi_=ifi_):
            kw = {'encoding': vbs.codec(it), 'iso_config': common.generic_bit_config(it)} if cq.endswith('IpmReader') else {}
            obj, f = readers.make_vbs_reader(it, prog, cq, blocked=None, extra_kwargs=kw)
            lr = it.sym_bytes('last', lo=5)
            obj.fields['last_record'] = lr
            it.user['lr'] = lr
            return it.call_function(ifi_, [], {}, self_obj=obj)
        runs_it = Runs(prog, entry_it, res=res)

        def chk_it(p, mode):
            if p.outcome != 'return':
                return [definite(f'iter(reader) raises {p.value!r}')] if p.outcome == 'raise' else []
            obj, k = p.interp.user['reader'], p.interp.user['k']
            fails = []
            rn = obj.fields.get('record_number')
            if not isinstance(rn, IntV):
                fails.append(soft(f'record_number is {rn!r} after iter(reader)'))
            else:
                fails += need_eq0(p.store, rn.lin - k.lin,
                                  f'iter(reader) on a reader that stands at record k leaves the counter at {p.store.canon(rn.lin)}: a '
                                  f'second for loop, islice() chunk or a for loop after next() reports the bad record under another number')
            if obj.fields.get('last_record') is not p.interp.user['lr']:
                fails.append(definite('iter(reader) changes last_record', firm=True))
            f = p.interp.user['file']
            if p.store.decide_eq0(f.pos - p.interp.user['pos0']) is not True:
                fails.append(definite('iter(reader) moves the file position', firm=True))
            return fails
        res.add(runs_it.judge('C10.c', f'{ci_.name}.__iter__: obtaining the iterator changes neither the record counter, last_record nor '
                                       f'the file position (the numbering continues where the reader stands)', func_where(ifi_),
                              'def __iter__(self): return self', chk_it, rule=f'C10.c.iter.{ci_.name}'))

    # ---- C10.d carrier and report
    cfi = prog.func('CardutilError.__init__')
    ecls = prog.cls('CardutilError')

    def entry_d(it):
        rn = it.sym_int('rn', 1, None)
        ctx = it.sym_bytes('ctx', lo=1)
        it.user.update(rn=rn, ctx=ctx)
        return it.instantiate_exc(ecls, [seqops.lit('msg')], {'record_number': rn, 'binary_context_data': ctx}, None)
    runs_d = Runs(prog, entry_d, res=res)

    def chk_d(p, mode):
        if p.outcome != 'return':
            return [definite('constructing the library error raises')] if p.outcome == 'raise' else []
        exc = p.value
        fails = []
        rn = exc.fields.get('record_number')
        if not (isinstance(rn, IntV) and p.store.decide_eq0(rn.lin - p.interp.user['rn'].lin) is True):
            fails.append(definite(f'record_number keyword is not stored on the exception (got {rn!r})'))
        ctx = exc.fields.get('binary_context_data')
        if not same_seq(p, ctx, p.interp.user['ctx']):
            fails.append(definite(f'binary_context_data keyword is not stored on the exception (got {ctx!r})'))
        return fails
    res.add(runs_d.judge('C10.d', 'CardutilError stores record_number and binary_context_data under those names',
                         func_where(cfi), "self.record_number = kwargs['record_number']", chk_d))

    if prog.has_func('cli.print_exception_details'):
        pfi = prog.func('cli.print_exception_details')

        def entry_p(it):
            exc = ExcV(ecls, [])
            rn = it.sym_int('rn', 1, None)
            # the error of the reader as the tools get it: raised by the reader itself (no cause), caused by a python error,
            # or caused by the error of the message layer, which carries its own context data and its own cause
            c = it.choose(3, 'cause of the reported error: none / a python exception / the error of the message layer') or 0
            if c == 0:
                ex = ConstV(None)
            elif c == 1 or icls is None:
                ex = ExcV(ValueError, [])
            else:
                ex = ExcV(icls, [])
                ex.fields.update(record_number=ConstV(None), binary_context_data=it.sym_bytes('inner_ctx', lo=0),
                                 ex=ExcV(ValueError, []))
            ctx = it.sym_bytes('ctx', lo=1)
            exc.fields.update(record_number=rn, binary_context_data=ctx, ex=ex)
            it.user.update(rn=rn, ctx=ctx)
            return it.call_function(pfi, [exc], {})
        try:
            icls = prog.cls('iso8583.Iso8583DataError')
        except AnalysisError:
            icls = None
        runs_p = Runs(prog, entry_p, res=res)

        def chk_p(p, mode):
            rn = p.interp.user['rn']
            sym = rn.lin.syms()[0]
            for e in p.evs('print'):
                for a in e.data['args']:
                    if isinstance(a, SeqV) and any(isinstance(g, Num) and g.val is not None and sym in g.val.syms()
                                                   for g in a.segs):
                        return []
            return [definite('the operator report does not print err.record_number')]
        res.add(runs_p.judge('C10.d', 'print_exception_details prints the record number of the error', func_where(pfi),
                             "print(f'Error detected in record {err.record_number}')", chk_p, rule='C10.d.report',
                             unknown_ok=benign_unknown))
        def chk_ctx(p, mode):
            if p.outcome != 'return':
                return []
            ctx = p.interp.user['ctx']
            shown, opaque = [], False
            for e in p.events:
                if e.kind != 'ext-call':
                    continue
                for a in list(e.data.get('args') or []) + list((e.data.get('kwargs') or {}).values()):
                    a = p.interp.resolve(a)
                    if isinstance(a, SeqV) and a.kind == 'bytes':
                        if same_seq(p, a, ctx):
                            return []
                        shown.append(a)
                    elif isinstance(a, (UnkV, SymV, BoundExt, IterV, GenCallV)) or \
                            isinstance(a, SeqV) and any(isinstance(g, Opq) for g in a.segs):
                        opaque = True       # a value the interpretation lost track of may be the context data
            if opaque:
                return [soft('what the report hands to its output calls could not be followed')]
            return [definite('the raw bytes of the record in error (binary_context_data of the error reported) never reach the '
                             f'output of the report; bytes shown: {shown!r}', firm=True)]
        res.add(runs_p.judge('C10.d', 'print_exception_details shows the context data of the error it reports (the raw record), '
                                      'whatever caused that error', func_where(pfi),
                             'if err.binary_context_data: hexdump(err.binary_context_data)', chk_ctx, rule='C10.d.report.ctx',
                             unknown_ok=benign_unknown))
    from .tools import cli_error_obs
    for ob in cli_error_obs(prog, res, 'report'):
        res.add(ob)

