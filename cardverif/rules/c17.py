"""C17 - file inspection: blocked decision table, validity ladder, offsets, encoding ladder."""
from __future__ import annotations

import ast

from ..lin import Lin, Infeasible
from ..avals import *   # noqa
from ..decide import Runs, need_ge0, need_eq0, definite, soft, iterations
from . import common
from ..report import Ob, PROVED, REFUTED, UNDECIDED, func_where, ASSUMPTIONS, Failure
from ..model import norm_text, AnalysisError
from .. import seqops
from .vbs import max_len
from .c04 import PAD

WIRE = frozenset(['wire'])
PAD2 = bytes([PAD]) * 2


def cell_outcomes(runs, src_of, L, preds):
    """Evaluate the decision function in the cell len == L with slice predicates `preds` {(lo,hi): bool}.
    -> list of (path, return value) consistent with the cell."""
    out = []
    for p in runs.inv:
        if p.outcome != 'return':
            continue
        src = src_of(p)
        trial = p.store.copy()
        try:
            trial.assume_eq0(src.length - L)
        except Infeasible:
            continue
        ok = True
        for kind, truth, data in p.facts:
            if kind != 'seq-eq':
                continue
            a, b = data['a'], data['b']
            for x, y in ((a, b), (b, a)):
                if isinstance(y, SeqV) and y.is_lit() and isinstance(x, SeqV) and len(x.segs) == 1 and isinstance(x.segs[0], Sl) \
                        and x.segs[0].src is src:
                    lo, hi = trial.canon(x.segs[0].lo), trial.canon(x.segs[0].hi)
                    if lo.is_const() and hi.is_const():
                        key = (lo.c, hi.c)
                        if key in preds and y.lit_value() == PAD2:
                            if preds[key] != truth:
                                ok = False
                        elif key in preds and y.lit_value() != PAD2 and truth and preds[key]:
                            ok = False   # compared equal to something that is not the pad while the cell says pad
        if ok:
            out.append((p, p.value))
    return out


def exact_cells(prog, res, bfi, cells):
    """-> (bad cells in the format of the table check, undecided [(L, why)], evaluations)"""
    from ..interp import Analysis
    bad, und, n = [], [], 0
    for L, preds, want, why in cells:
        def entry(it, L=L, preds=preds):
            cuts = sorted((lo, hi, t) for (lo, hi), t in preds.items() if hi <= L)
            segs, pos = [], 0
            for lo, hi, t in cuts:
                if lo > pos:
                    src = seqops.new_source(it, f'data{pos}', 'bytes', lo - pos, lo - pos, tags=WIRE)
                    segs.append(Sl(src, 0, lo - pos))
                if t:
                    segs.append(Lit(PAD2))
                else:
                    src = seqops.new_source(it, f'not_pad{lo}', 'bytes', hi - lo, hi - lo, tags=WIRE)
                    piece = seqops.whole(src)
                    key = ('seq-eq', it._seq_key(piece), it._seq_key(seqops.lit(PAD2)))
                    it.binds[key] = False
                    it.binds[('seq-eq', key[2], key[1])] = False
                    segs.append(Sl(src, 0, hi - lo))
                pos = hi
            if L > pos:
                src = seqops.new_source(it, f'data{pos}', 'bytes', L - pos, L - pos, tags=WIRE)
                segs.append(Sl(src, 0, L - pos))
            sample = seqops.normalise(it, 'bytes', tuple(segs), WIRE)
            return it.call_function(bfi, [sample], {})
        an = Analysis(prog, mode='unroll', unroll=4)
        try:
            paths = an.explore(entry)
        except AnalysisError as ex:
            und.append((L, str(ex)))
            continue
        vals = set()
        blocked = None
        for p in paths:
            n += 1
            if p.outcome != 'return' or p.tainted or p.unknowns:
                blocked = f'{p.outcome} {p.value!r}' if p.outcome != 'return' else f'{(p.tainted or p.unknowns)[0]}'
                continue
            if p.facts:
                # the path took a decision the abstraction could not make from the cell (a generic element, symbolic data):
                # its result is not "the" result of the cell
                blocked = f'decision on {p.facts[0][0]} not fixed by the cell'
                continue
            v = p.interp.resolve(p.value)
            vals.add(v.value if isinstance(v, ConstV) else repr(v))
        wrong = {v for v in vals if v != want}
        if wrong:
            bad.append((L, preds, want, why, f'returns {sorted(map(str, vals))}'))
        elif blocked or not vals:
            und.append((L, blocked or 'no path'))
    return bad, und, n


def check(prog, res, tier):
    res.assumptions = [ASSUMPTIONS['A2'], ASSUMPTIONS['A3'], ASSUMPTIONS['A4']]
    res.explanation = (
        'Decision-table extraction: block_1014_check, ipm_info, bitmap_check and encoding_check depend on their input only '
        'through comparisons of lengths with constants and of fixed-position slices with constants; their abstract paths '
        '(constraints + slice facts + returned constant) are the decision table, which is evaluated in every cell the '
        'property fixes (the three shapes of a blocked writer file, files shorter than a block, trailer absent) and '
        'compared with the required answer.')
    bfi = prog.func('mciipm.block_1014_check')
    ifi = prog.func('mciipm.ipm_info')
    MAX = max_len(prog)

    def entry_b(it):
        s = it.sym_bytes('sample', tags=WIRE)
        it.user['s'] = s
        return it.call_function(bfi, [s], {})
    runs_b = Runs(prog, entry_b, res=res)

    # sample size read by ipm_info (observed on its abstract paths)
    S = None

    def entry_s(it):
        return it.call_function(ifi, [it.new_file('in', tags=WIRE)], {})
    for p in Runs(prog, entry_s, res=res).inv:
        for e in p.events:
            if e.kind == 'read' and e.under(ifi.short) and e.data['size'] is not None:
                c = p.store.canon(Lin.of(e.data['size']))
                if c.is_const():
                    S = c.c if S is None else min(S, c.c)
    ob = Ob('C17.a', 'the inspection sample is large enough to see the trailers of the first two blocks', func_where(ifi),
            'sample_data = input_data.read(N)', rule='C17.a.sample')
    if S is None:
        ob.verdict, ob.detail = UNDECIDED, 'sample size not found'
    elif S >= 2028:
        ob.verdict, ob.detail = PROVED, f'sample size {S} >= 2028'
    else:
        ob.verdict, ob.detail, ob.witness = REFUTED, f'sample size {S} < 2028: the second trailer is not observable', {'S': S}
    res.add(ob)
    S = S or 2500

    def src_b(p):
        return p.interp.user['s'].segs[0].src
    T1, T2 = (1012, 1014), (2026, 2028)
    cells = []
    for L in sorted({1014, 2028, S}):
        if L == 1014:
            cells.append((L, {T1: True}, True, 'one-block blocked file'))
        elif L >= 2028:
            cells.append((L, {T1: True, T2: True}, True, f'blocked file of {"two" if L == 2028 else "three or more"} blocks '
                                                         f'({L}-byte sample)'))
    for L in (0, 23, 1013):
        cells.append((L, {}, False, 'shorter than one block'))
    for L in sorted({1014, 1015, 2027, 2028, 2029, S}):
        preds = {T1: False}
        if L >= 2028:
            for t2 in (True, False):
                cells.append((L, {T1: False, T2: t2}, False, 'bytes 1012-1013 are not both 0x40'))
        else:
            cells.append((L, preds, False, 'bytes 1012-1013 are not both 0x40'))

    blocked_ob = Ob('C17.a', f'blocked decision table: True for the shapes of a blocked writer file (1014, 2028, {S}+ bytes sampled), '
                             f'False below one block and when bytes 1012-1013 are not 0x40 0x40', func_where(bfi),
                    'block_1014_check decision table')
    bad, amb = [], []
    blockers = [p for p in runs_b.inv if p.outcome != 'return' or p.tainted or p.unknowns]
    n_eval = 0
    table = []
    for L, preds, want, why in cells:
        outs = cell_outcomes(runs_b, src_b, L, preds)
        n_eval += len(outs)
        vals = set()
        unclear = set()
        for p, v in outs:
            v = p.interp.resolve(v)
            val = v.value if isinstance(v, ConstV) else repr(v)
            src_ = src_b(p)
            # a path that took a decision on something other than bytes of the sample (the truth of a generic element of a
            # generalised loop ...) does not give "the" answer of the cell
            foreign = [k for k, _t, d in p.facts if not (k == 'seq-eq' and any(
                isinstance(x, SeqV) and len(x.segs) == 1 and isinstance(x.segs[0], Sl) and x.segs[0].src is src_ for x in (d.get('a'), d.get('b'))))]
            (unclear if foreign else vals).add(val)
        table.append({'len': L, 'preds': {f'{k[0]}:{k[1]}': t for k, t in preds.items()}, 'result': sorted(map(str, vals))})
        if not outs:
            bad.append((L, preds, want, why, 'no path covers this cell'))
        elif vals - {want}:
            bad.append((L, preds, want, why, f'returns {sorted(map(str, vals | unclear))}'))
        elif unclear - {want} or not vals:
            amb.append((L, preds, want, why, f'returns {sorted(map(str, vals | unclear))}'))
    res.count(evaluations=n_eval)
    blocked_ob.abstract = table[:8]
    if blockers or (amb and not bad):
        # the function has loops (or answers that hang on generic elements): evaluate it exactly, cell by cell, on samples of concrete length whose trailer positions
        # hold 0x40 0x40 (or a two-byte value known to differ) and whose other bytes are symbolic
        bad, und, n_exact = exact_cells(prog, res, bfi, cells)
        res.count(evaluations=n_exact)
        if und:
            blocked_ob.verdict = UNDECIDED
            why0 = f'({blockers[0].outcome} {blockers[0].value!r})' if blockers else '(answers hang on generic elements)'
            blocked_ob.detail = f'decision function not fully interpreted {why0}; ' \
                                f'exact evaluation of cell len={und[0][0]} is blocked: {und[0][1]}'
            res.add(blocked_ob)
            bad = None
    if bad is None:
        pass
    elif (blockers or amb) and not bad:
        amb = []
        blocked_ob.verdict, blocked_ob.detail = PROVED, f'{len(cells)} cells evaluated exactly on samples of concrete length (loops fully unrolled)'
        res.add(blocked_ob)
        bad = None
    if bad is None:
        pass
    elif not bad and amb and not blockers:
        L, preds, want, why, got = amb[0]
        blocked_ob.verdict = UNDECIDED
        blocked_ob.detail = f'cell len(sample)={L} ({why}): {got} - both answers for one cell, the analysis does not fix the choice'
    elif bad:
        L, preds, want, why, got = bad[0]
        blocked_ob.verdict = REFUTED
        blocked_ob.detail = f'cell len(sample)={L}, ' + ', '.join(f'sample[{k[0]}:{k[1]}]{"==" if t else "!="}0x4040' for k, t in preds.items()) \
                            + f' ({why}): expected {want}, {got}' + (f'; {len(bad)} cells differ' if len(bad) > 1 else '')
        blocked_ob.witness = {'len(sample)': L, **{f'sample[{k[0]}:{k[1]}]==pad': t for k, t in preds.items()}}
    else:
        blocked_ob.verdict, blocked_ob.detail = PROVED, f'{len(cells)} cells evaluated over {len(runs_b.inv)} abstract paths'
    if bad is not None:
        res.add(blocked_ob)

    # ---- C17.b validity ladder
    def entry_i(it):
        f = it.new_file('in', tags=WIRE)
        it.user['f'] = f
        return it.call_function(ifi, [f], {})

    def bm_summary(it, fi, args, kwargs, node, self_obj):
        ok = it.choose(2, 'bitmap ok') in (0, None)
        it.user['bm_arg'] = args[0] if args else None
        if ok:
            return TupleV([ConstV(True), ConstV(None)])
        r = it.sym_str('bitmap_reason', lo=1)
        it.user['bm_reason'] = r
        return TupleV([ConstV(False), r])

    def blk_summary(it, fi, args, kwargs, node, self_obj):
        it.user['blk_arg'] = args[0] if args else None
        v = SymV('is_blocked', 'bool')
        it.user['blk_ret'] = v
        return v

    def enc_summary(it, fi, args, kwargs, node, self_obj):
        it.user['enc_arg'] = args[0] if args else None
        v = it.sym_str('encoding_name', lo=1)
        it.user['enc_ret'] = v
        return v
    # the helpers may have moved (static methods with module-level aliases...): key the summaries by what the names resolve to
    runs_i = Runs(prog, entry_i, summaries={prog.func('mciipm.bitmap_check').short: bm_summary,
                                            prog.func('mciipm.block_1014_check').short: blk_summary,
                                            prog.func('mciipm.encoding_check').short: enc_summary}, res=res,
                  raise_ops=True)      # an operation that can fail on a short or odd sample (unpack, indexing) is allowed to fail

    def first_len(p):
        for e in p.events:
            if e.kind == 'ext-call' and e.under(ifi.short):
                if e.data['callee'] == 'struct.unpack':
                    r = e.data['result']
                    if isinstance(r, TupleV) and r.items and isinstance(r.items[0], IntV):
                        return r.items[0], e
                if e.data['callee'] == 'int.from_bytes' and isinstance(e.data['result'], IntV):
                    return e.data['result'], e
        return None, None

    def chk_i(p, mode):
        if p.outcome != 'return':
            return [definite(f'ipm_info raises {p.value!r}')] if p.outcome == 'raise' else []
        out = p.value
        it = p.interp
        st = p.store
        if not isinstance(out, DictV):
            return [definite('ipm_info does not return a dict')]
        f = it.user['f']
        reads = [e for e in p.events if e.kind == 'read' and e.data['file'] is f]
        if not reads:
            return [definite('ipm_info does not read the file')]
        sample = reads[0].data['data']
        L = sample.length()
        valid = it.resolve(out.items.get('isValidIPM', ConstV(None)))
        valid = valid.value if isinstance(valid, ConstV) else None
        has_reason = 'reason' in out.items
        fails = []
        u, ue = first_len(p)
        short = st.prove_ge0(Lin.const(23) - L)
        if short:
            if valid is not False or not has_reason:
                fails.append(definite('an input shorter than 24 bytes is not reported invalid with a reason'))
            return fails
        if valid is False and not has_reason:
            fails.append(definite('a file is reported invalid without a reason'))
        if valid is False and u is None:
            # rejected before looking at the length although >= 24 bytes are present
            trial = st.copy()
            try:
                trial.assume_ge0(L - 24)
                fails.append(Failure('an input of 24 or more bytes is rejected as too short', neg=[[L - 24]]))
            except Infeasible:
                pass
            return fails
        if u is not None:
            big = st.prove_ge0(u.lin - MAX - 1)
            if big and (valid is not False or not has_reason):
                fails.append(definite(f'a first record length above the configured maximum {MAX} is not reported invalid with a reason'))
            if valid is False and 'bm_reason' not in it.user:
                # rejected on the length: must exceed the maximum
                trial = st.copy()
                try:
                    trial.assume_ge0(Lin.const(MAX) - u.lin)
                    trial.assume_ge0(u.lin)
                    fails.append(Failure(f'a first record length within 0..{MAX} is reported invalid', neg=[[Lin.const(MAX) - u.lin, u.lin]]))
                except Infeasible:
                    pass
            # offsets
            piece = it.origin.get(u.lin.syms()[0])
            if piece and piece[0] in ('unpack', 'from_bytes'):
                b = piece[2] if piece[0] == 'unpack' else piece[1]
                if not (len(b.segs) == 1 and st.decide_eq0(b.segs[0].lo - sample.segs[0].lo) is True
                        and st.decide_eq0(b.segs[0].hi - b.segs[0].lo - 4) is True):
                    fails.append(definite('the first record length is not read from bytes 0-3'))
        if 'bm_reason' in it.user:
            r = out.items.get('reason')
            in_range = u is not None and st.prove_ge0(Lin.const(MAX) - u.lin)
            if valid is not False or (r is not it.user['bm_reason'] and in_range):
                # (with a first length above the maximum as well, either reason will do: the helper may have been called early)
                fails.append(definite('a bitmap naming an unconfigured element is not reported invalid with the reason given by bitmap_check'))
        if valid is True:
            base = sample.segs[0].lo if sample.segs else Lin.const(0)

            def at(arg, lo, hi):
                return isinstance(arg, SeqV) and len(arg.segs) == 1 and isinstance(arg.segs[0], Sl) and \
                    st.decide_eq0(arg.segs[0].lo - base - lo) is True and st.decide_eq0(arg.segs[0].hi - base - hi) is True
            if it.user.get('bm_arg') is None:
                fails.append(soft('no call of bitmap_check was observed'))
            elif not at(it.user.get('bm_arg'), 8, 24):
                fails.append(definite(f'bitmap_check is given {it.user.get("bm_arg")!r}, not bytes 8-23'))
            if it.user.get('enc_arg') is None:
                fails.append(soft('no call of encoding_check was observed'))
            elif not at(it.user.get('enc_arg'), 4, 8):
                fails.append(definite(f'encoding_check is given {it.user.get("enc_arg")!r}, not the MTI bytes 4-7'))
            ba = it.user.get('blk_arg')
            if not (isinstance(ba, SeqV) and seqops.seq_eq_structural(it, ba, sample) is True):
                fails.append(definite('block_1014_check is not given the whole sample'))
            if out.items.get('isBlocked') is not it.user.get('blk_ret'):
                fails.append(definite('isBlocked is not the result of block_1014_check'))
            if out.items.get('encoding') is not it.user.get('enc_ret'):
                fails.append(definite('encoding is not the result of encoding_check'))
        return fails
    res.add(runs_i.judge('C17.b', f'ipm_info: < 24 bytes, first length > {MAX}, unconfigured bitmap bit -> invalid with a reason; otherwise '
                                  f'valid with isBlocked/encoding from the sample', func_where(ifi), 'ipm_info validity ladder', chk_i))

    # ---- C17.b the inspection functions keep no state between files
    for ob in common.state_obs(res, 'C17.b', func_where(ifi), [('ipm_info', runs_i)], 'file inspection'):
        res.add(ob)

    # ---- C17.b where the maximum comes from: the configuration as it is when the file is inspected
    obm = Ob('C17.b', 'the maximum first-record length is read from the configuration when ipm_info runs (not frozen at import)',
             func_where(ifi), "config.config.get('MAX_VBS_RECORD_LENGTH', 6000)", rule='C17.b.config')
    looks = []
    for p in runs_i.inv:
        for e in p.events:
            if e.kind == 'method' and e.data['name'] == 'get' and e.data['args'] and p.interp.py_key(e.data['args'][0]) == 'MAX_VBS_RECORD_LENGTH':
                looks.append(bool(e.data.get('def_time')))
    if not looks:
        obm.verdict, obm.detail = UNDECIDED, 'configuration lookup not observed'
    elif any(looks):
        obm.verdict = REFUTED
        obm.detail = ('the maximum is looked up in a parameter default, i.e. once when the module is imported: after the configured '
                      'maximum changes, writer files are misjudged')
        obm.witness = {'lookup': 'def-time'}
    else:
        obm.verdict, obm.detail = PROVED, f'looked up inside ipm_info on {len(looks)} path visits'
    res.add(obm)

    # ---- C17.c bitmap_check numbering
    mfi = prog.func('mciipm.bitmap_check')

    def entry_m(it):
        b = it.sym_bytes('bitmap', lo=16, hi=16, tags=WIRE)
        return it.call_function(mfi, [b], {})
    runs_m = Runs(prog, entry_m, res=res)

    def chk_m(p, mode):
        fails = []
        st = p.store
        for kind, truth, data in p.facts:
            if kind == 'in':
                item, cont = data['item'], data['container']
                if not (isinstance(cont, PyLit) and cont.path.endswith("['bit_config']")):
                    fails.append(definite(f'element numbers are looked up in {cont!r}, not the packaged bit configuration'))
                if isinstance(item, SeqV) and len(item.segs) == 1 and isinstance(item.segs[0], Num) and item.segs[0].val is not None:
                    idxs = [e.data.get('elem') for e in p.events if e.kind == 'loop-iter' and e.under(mfi.short)]
                    idx = idxs[-1] if idxs else None
                    fi_ev = [e for e in p.events if e.kind == 'for-iter' and e.under(mfi.short)]
                    itv = fi_ev[-1].data['iterable'] if fi_ev else None
                    nv = st.canon(item.segs[0].val)
                    org = None
                    for sy in nv.syms():
                        o_ = p.interp.origin.get(sy)
                        if isinstance(o_, tuple) and o_ and o_[0] == 'enumerate':
                            org = (sy, o_)
                    if org is not None and not (isinstance(idx, TupleV) and isinstance(itv, IterV)):
                        # the element number was produced by an enumerate() elsewhere (e.g. a list of used elements built first)
                        sy, (_, start, src, _el) = org
                        pos = Lin.sym(sy) - Lin.of(start)
                        par = getattr(src, 'parent', None)
                        if par is not None and par[1] is not None:
                            pos = pos + Lin.of(par[1])
                        fails += need_eq0(st, item.segs[0].val - pos - 1,
                                          f'bit-list position {st.canon(pos)} is checked as element {st.canon(item.segs[0].val)} '
                                          f'(position i holds element i+1)')
                        fails += need_ge0(st, pos - 1, 'bit 1 (position 0) is looked up although it has no configuration')
                    elif isinstance(idx, TupleV) and isinstance(idx.items[0], IntV) and isinstance(itv, IterV):
                        # position of the tested bit in the unpacked bit list = counter - start + slice offset
                        pos = idx.items[0].lin - getattr(itv, 'enum_start', Lin.const(0))
                        src = itv.src
                        par = getattr(src, 'parent', None)
                        if par is not None and par[1] is not None:
                            pos = pos + Lin.of(par[1])
                        fails += need_eq0(st, item.segs[0].val - pos - 1,
                                          f'bit-list position {st.canon(pos)} is checked as element {st.canon(item.segs[0].val)} '
                                          f'(position i holds element i+1)')
                        fails += need_ge0(st, pos - 1, 'bit 1 (position 0) is looked up although it has no configuration')
                    else:
                        fails.append(soft('bit loop has an unexpected shape'))
                else:
                    fails.append(soft(f'lookup key has an unexpected shape: {item!r}'))
        if p.outcome == 'return':
            v = p.value
            if isinstance(v, TupleV) and len(v.items) == 2:
                ok = p.interp.resolve(v.items[0])
                missing = [t for k, t, d in p.facts if k == 'in' and not t]
                if isinstance(ok, ConstV) and ok.value is True and missing and mode == 'unroll':
                    fails.append(definite('a bitmap naming an unconfigured element is accepted'))
        return fails
    # coverage: the elements examined are 2..128 (positions 1..127 of the unpacked bits)
    ob = Ob('C17.c', 'bitmap_check examines every element 2..128 of the first bitmap', func_where(mfi), 'for bit, bit_value in enumerate(bits)',
            rule='C17.c.coverage')
    looked = set()
    blockers = []
    for p in runs_m.inv:
        if p.unknowns or p.tainted or p.outcome == 'abandon':
            blockers.append(p)
        for kind, truth, data in p.facts:
            if kind == 'in' and isinstance(data['item'], SeqV) and len(data['item'].segs) == 1 and isinstance(data['item'].segs[0], Num) \
                    and data['item'].segs[0].val is not None:
                lo, hi = p.store.bounds(data['item'].segs[0].val)
                looked.add((lo, hi))
    if blockers:
        ob.verdict, ob.detail = UNDECIDED, 'bitmap_check not fully interpreted'
    elif not looked:
        ob.verdict, ob.detail = UNDECIDED, 'no configuration lookup observed'
    else:
        lo = min(x[0] for x in looked if x[0] is not None) if all(x[0] is not None for x in looked) else None
        hi = max(x[1] for x in looked if x[1] is not None) if all(x[1] is not None for x in looked) else None
        holes = []
        if lo is not None and hi is not None:
            # the union of the ranges looked up on the individual paths must leave out no element of 2..128
            nxt = 2
            for a, b in sorted(looked):
                if a > nxt:
                    holes.append((nxt, min(a - 1, 128)))
                nxt = max(nxt, b + 1)
                if nxt > 128:
                    break
            if nxt <= 128:
                holes.append((nxt, 128))
            holes = [h for h in holes if h[0] <= h[1]]
        if lo is not None and hi is not None and lo <= 2 and hi >= 128 and holes:
            a, b = holes[0]
            ob.verdict = REFUTED
            ob.detail = (f'element{"s" if b > a else ""} {a}{".." + str(b) if b > a else ""} of the first bitmap {"are" if b > a else "is"} '
                         f'never looked up in the configuration: a bitmap that uses an unconfigured DE{a} is reported valid')
            ob.witness = {'element not examined': a}
        elif lo is not None and hi is not None and lo <= 2 and hi >= 128:
            ob.verdict, ob.detail = PROVED, f'looked-up element numbers range over {lo}..{hi}'
        elif lo is None or hi is None:
            ob.verdict, ob.detail = UNDECIDED, f'looked-up element numbers are unbounded ({lo}, {hi})'
        else:
            ob.verdict, ob.detail, ob.witness = REFUTED, f'only elements {lo}..{hi} are examined: an unconfigured element outside that range is accepted', {'lo': lo, 'hi': hi}
    res.add(ob)

    res.add(runs_m.judge('C17.c', 'bitmap_check numbers list index i as element i+1, skips bit 1 and looks elements up in the packaged bit configuration',
                         func_where(mfi), "str(bit + 1) not in config.config['bit_config']", chk_m))

    # ---- C17.d encoding ladder
    efi = prog.func('mciipm.encoding_check')

    def entry_e(it):
        m = it.sym_bytes('mti', lo=4, hi=4, tags=WIRE)
        return it.call_function(efi, [m], {})
    runs_e = Runs(prog, entry_e, res=res)

    def chk_e(p, mode):
        if p.outcome != 'return':
            return [definite(f'encoding_check raises {p.value!r}')] if p.outcome == 'raise' else []
        v = p.interp.resolve(p.value)
        name = v.lit_value() if isinstance(v, SeqV) and v.is_lit() else None
        tests = []
        for kind, truth, data in p.facts:
            if kind in ('isnumeric', 'isdigit', 'isdecimal'):
                c = getattr(data['value'], 'codec', None)
                cn = p.interp.py_key(c) if c is not None else None
                tests.append((cn, truth))
        norm = lambda s: (s or '').replace('_', '').replace('-', '').lower()
        want = 'unknown'
        for cn, truth in tests:
            if truth:
                want = cn
                break
        fails = []
        order = [norm(c) for c, _t in tests]
        if not tests:
            return [soft('no digit test of the decoded MTI (isnumeric / isdigit / isdecimal under a codec) is recognised')]
        if order[:1] != ['latin1']:
            fails.append(definite(f'the MTI is not tested as ASCII-family digits first (tests: {order})'))
        if len(order) > 1 and order[1] not in ('cp037', 'cp500'):
            fails.append(definite(f'the second test is not an EBCDIC codec (tests: {order})'))
        if norm(name) != norm(want):
            fails.append(definite(f'digits under {want!r} are reported as {name!r}'))
        if want == 'unknown' and len(tests) < 2:
            fails.append(definite('"unknown" is reported without testing both families'))
        return fails
    res.add(runs_e.judge('C17.d', "encoding_check: numeric under latin1 -> 'latin1'; else numeric under cp037 -> 'cp037'; else 'unknown'",
                         func_where(efi), "mti.decode('latin1').isnumeric() / mti.decode('cp037').isnumeric()", chk_e))
