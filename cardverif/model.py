"""K0 - resolved program model of /repo/cardutil (parsed, never imported)."""
from __future__ import annotations

import ast
import os

REPO = os.environ.get('CARDVERIF_REPO', '/repo')
PKG = 'cardutil'


class AnalysisError(Exception):
    """The analysis itself is broken (missing anchor, parse failure...)."""


SYNTHETIC_SRC = '''
def iter_sentinel(function, sentinel):
    while True:
        try:
            value = function()
        except StopIteration:
            return
        if value == sentinel:
            return
        yield value


class ExitStack:
    def __init__(self):
        self._entered = []

    def __enter__(self):
        return self

    def enter_context(self, cm):
        result = cm.__enter__()
        self._entered.append(cm)
        return result

    def __exit__(self, exc_type, exc_value, traceback):
        for cm in reversed(self._entered):
            cm.__exit__(None, None, None)
        self._entered = []
        return False

    def close(self):
        self.__exit__(None, None, None)


def map1(function, iterable):
    for item in iterable:
        yield function(item)


def reduce3(function, iterable, initial):
    value = initial
    for item in iterable:
        value = function(value, item)
    return value


def op_xor(a, b):
    return a ^ b


def op_add(a, b):
    return a + b


def op_or(a, b):
    return a | b


def op_and(a, b):
    return a & b


def accumulate_add(iterable, initial, has_initial):
    total = initial
    if has_initial:
        yield total
    for item in iterable:
        if has_initial:
            total = total + item
        else:
            total = item
            has_initial = True
        yield total


def chain_n(*iterables):
    for iterable in iterables:
        for item in iterable:
            yield item


def chain_from_iterable(iterables):
    for iterable in iterables:
        for item in iterable:
            yield item


def islice_stop(iterable, stop):
    count = 0
    for item in iterable:
        if count >= stop:
            return
        yield item
        count += 1


def takewhile2(predicate, iterable):
    for item in iterable:
        if not predicate(item):
            return
        yield item


def dropwhile2(predicate, iterable):
    dropping = True
    for item in iterable:
        if dropping and predicate(item):
            continue
        dropping = False
        yield item


def repeat1(item):
    while True:
        yield item


def repeat2(item, times):
    for _ in range(times):
        yield item


def count2(start, step):
    value = start
    while True:
        yield value
        value = value + step


def starmap2(function, iterable):
    for arguments in iterable:
        yield function(*arguments)


def islice3(iterable, start, stop):
    position = 0
    for item in iterable:
        if stop is not None and position >= stop:
            return
        if position >= start:
            yield item
        position += 1


def compress2(data, selectors):
    for item, flag in zip(data, selectors):
        if flag:
            yield item


def filter1(function, iterable):
    for item in iterable:
        if function(item):
            yield item
'''


class FuncInfo:
    def __init__(self, qualname, node, module, cls=None):
        self.qualname = qualname
        self.node = node
        self.module = module
        self.cls = cls
        self.name = node.name
        decs = []
        for d in node.decorator_list:
            decs.append(ast.unparse(d))
        self.decorators = decs
        self.is_static = 'staticmethod' in decs
        self.is_classmethod = 'classmethod' in decs
        self.is_property = 'property' in decs or any(d.split('.')[-1] == 'cached_property' for d in decs)
        self.is_abstract = any(d.endswith('abstractmethod') for d in decs)

    def __repr__(self):
        return f'<func {self.qualname}>'

    @property
    def short(self):
        return self.qualname[len(PKG) + 1:] if self.qualname.startswith(PKG + '.') else self.qualname


class ClassInfo:
    def __init__(self, qualname, node, module):
        self.qualname = qualname
        self.node = node
        self.module = module
        self.name = node.name
        self.base_exprs = node.bases
        self.bases = []          # ClassInfo | str (external dotted)
        self.attrs = {}          # class-level assignments name -> ast expr
        self.ann_fields = []     # annotated field names in order (dataclass / NamedTuple style)
        self.decorators = [ast.unparse(d) for d in node.decorator_list]
        self.methods = {}        # name -> FuncInfo
        self.mro = None

    def __repr__(self):
        return f'<class {self.qualname}>'

    def lookup(self, name):
        """-> ('method', FuncInfo, owner) | ('attr', expr, owner) | None  via MRO"""
        for c in self.mro:
            if isinstance(c, str):
                continue
            if name in c.methods:
                return ('method', c.methods[name], c)
            if name in c.attrs:
                return ('attr', c.attrs[name], c)
        return None

    def lookup_after(self, owner, name):
        """super() lookup: continue in the MRO after `owner`."""
        idx = self.mro.index(owner)
        for c in self.mro[idx + 1:]:
            if isinstance(c, str):
                continue
            if name in c.methods:
                return ('method', c.methods[name], c)
            if name in c.attrs:
                return ('attr', c.attrs[name], c)
        return None

    def external_bases(self):
        return [c for c in self.mro if isinstance(c, str)]

    def is_subclass_of(self, other):
        return other in self.mro


class Module:
    def __init__(self, name, path, tree, source):
        self.name = name
        self.path = path
        self.tree = tree
        self.source = source
        self.symbols = {}     # name -> binding tuple
        self.is_package = path.endswith('__init__.py')

    def __repr__(self):
        return f'<module {self.name}>'


class Program:
    def __init__(self, repo=None):
        self.repo = repo or REPO
        self.modules = {}
        self.funcs = {}       # qualname -> FuncInfo
        self.classes = {}     # qualname -> ClassInfo
        self.node_owner = {}  # id(ast node) -> FuncInfo (for reporting)
        self._load()
        self._bind()
        self._link_classes()

    # ------------------------------------------------------------------
    def _load(self):
        root = os.path.join(self.repo, PKG)
        if not os.path.isdir(root):
            raise AnalysisError(f'package directory {root} not found')
        for dirpath, dirnames, filenames in os.walk(root):
            dirnames[:] = sorted(d for d in dirnames if d not in ('vendor', '__pycache__'))
            for fn in sorted(filenames):
                if not fn.endswith('.py'):
                    continue
                path = os.path.join(dirpath, fn)
                rel = os.path.relpath(path, self.repo)
                parts = rel[:-3].split(os.sep)
                if parts[-1] == '__init__':
                    parts = parts[:-1]
                name = '.'.join(parts)
                with open(path, 'r', encoding='utf-8') as f:
                    src = f.read()
                try:
                    tree = ast.parse(src, filename=path)
                except SyntaxError as ex:
                    raise AnalysisError(f'{rel} does not parse: {ex}')
                for n in ast.walk(tree):
                    for ch in ast.iter_child_nodes(n):
                        ch._parent = n
                self.modules[name] = Module(name, rel, tree, src)

    def _bind(self):
        for mod in self.modules.values():
            self._bind_body(mod, mod.tree.body)

    def _bind_body(self, mod, body):
        for st in body:
            if isinstance(st, ast.FunctionDef):
                fi = FuncInfo(f'{mod.name}.{st.name}', st, mod)
                self.funcs[fi.qualname] = fi
                mod.symbols[st.name] = ('func', fi)
                self._own(st, fi)
            elif isinstance(st, ast.ClassDef):
                ci = ClassInfo(f'{mod.name}.{st.name}', st, mod)
                self.classes[ci.qualname] = ci
                mod.symbols[st.name] = ('class', ci)
                for b in st.bases:
                    # class X(collections.namedtuple('X', 'a b')) / (namedtuple('X', ['a', 'b']))
                    if isinstance(b, ast.Call) and ast.unparse(b.func).split('.')[-1] == 'namedtuple' and len(b.args) >= 2:
                        try:
                            spec = ast.literal_eval(b.args[1])
                        except Exception:
                            spec = None
                        if isinstance(spec, str):
                            spec = spec.replace(',', ' ').split()
                        if isinstance(spec, (list, tuple)) and all(isinstance(x, str) for x in spec):
                            ci.ann_fields = list(spec)
                            ci.namedtuple_base = True
                for cst in st.body:
                    if isinstance(cst, ast.FunctionDef):
                        fi = FuncInfo(f'{ci.qualname}.{cst.name}', cst, mod, ci)
                        # a later def with the same name (property setter...) overrides
                        ci.methods[cst.name] = fi
                        self.funcs[fi.qualname] = fi
                        self._own(cst, fi)
                    elif isinstance(cst, ast.Assign):
                        for t in cst.targets:
                            if isinstance(t, ast.Name):
                                ci.attrs[t.id] = cst.value
                    elif isinstance(cst, ast.AnnAssign) and isinstance(cst.target, ast.Name):
                        ci.ann_fields.append(cst.target.id)
                        if cst.value:
                            ci.attrs[cst.target.id] = cst.value
            elif isinstance(st, ast.Import):
                for a in st.names:
                    if a.asname:
                        mod.symbols[a.asname] = ('modref', a.name)
                    else:
                        top = a.name.split('.')[0]
                        mod.symbols[top] = ('modref', top)
            elif isinstance(st, ast.ImportFrom):
                base = st.module or ''
                if st.level:
                    pkgparts = mod.name.split('.')
                    if not mod.is_package:
                        pkgparts = pkgparts[:-1]
                    pkgparts = pkgparts[:len(pkgparts) - (st.level - 1)]
                    base = '.'.join(pkgparts + ([st.module] if st.module else []))
                for a in st.names:
                    mod.symbols[a.asname or a.name] = ('from', base, a.name)
            elif isinstance(st, ast.Assign):
                for t in st.targets:
                    if isinstance(t, ast.Name):
                        mod.symbols[t.id] = ('const', st.value, mod)
            elif isinstance(st, ast.AnnAssign) and isinstance(st.target, ast.Name) and st.value:
                mod.symbols[st.target.id] = ('const', st.value, mod)
            elif isinstance(st, (ast.If, ast.Try)):
                # module level conditional definitions: bind both arms
                for sub in ast.iter_child_nodes(st):
                    if isinstance(sub, ast.stmt):
                        self._bind_body(mod, [sub])

    def _own(self, fnode, fi):
        for n in ast.walk(fnode):
            self.node_owner[id(n)] = fi

    def _link_classes(self):
        for ci in self.classes.values():
            for b in ci.base_exprs:
                r = self.resolve_expr(ci.module, b)
                if r and r[0] == 'class':
                    ci.bases.append(r[1])
                elif r and r[0] == 'ext':
                    ci.bases.append(r[1])
                else:
                    ci.bases.append(ast.unparse(b))
        for ci in self.classes.values():
            ci.mro = self._c3(ci)

    def _c3(self, ci, seen=()):
        if isinstance(ci, str):
            return [ci]
        if ci in seen:
            raise AnalysisError(f'inheritance cycle at {ci.qualname}')
        seqs = [self._c3(b, seen + (ci,)) for b in ci.bases] + [list(ci.bases)]
        out = [ci]
        seqs = [list(s) for s in seqs if s]
        while seqs:
            for s in seqs:
                head = s[0]
                if not any(head in o[1:] for o in seqs):
                    break
            else:
                raise AnalysisError(f'no consistent MRO for {ci.qualname}')
            out.append(head)
            for s in seqs:
                if s and s[0] == head:
                    del s[0]
            seqs = [s for s in seqs if s]
        return out

    # ------------------------------------------------------------------
    def resolve_name(self, mod, name, depth=0):
        """Resolve a module-level name ->
        ('func', fi) | ('class', ci) | ('module', Module) | ('const', expr, Module) | ('ext', dotted) | None"""
        if depth > 10:
            return None
        b = mod.symbols.get(name)
        if b is None:
            return None
        kind = b[0]
        if kind in ('func', 'class', 'const'):
            return b
        if kind == 'modref':
            if b[1] in self.modules:
                return ('module', self.modules[b[1]])
            if b[1].split('.')[0] == PKG:
                return ('ext', b[1])
            return ('ext', b[1])
        if kind == 'from':
            base, attr = b[1], b[2]
            full = f'{base}.{attr}' if base else attr
            if full in self.modules:
                return ('module', self.modules[full])
            if base in self.modules:
                r = self.resolve_name(self.modules[base], attr, depth + 1)
                if r is not None:
                    return r
                return ('ext', full)
            return ('ext', full)
        return None

    def resolve_expr(self, mod, expr):
        """Resolve Name / dotted Attribute expression at module scope."""
        if isinstance(expr, ast.Name):
            return self.resolve_name(mod, expr.id)
        if isinstance(expr, ast.Attribute):
            base = self.resolve_expr(mod, expr.value)
            if base is None:
                return None
            return self.resolve_attr(base, expr.attr)
        return None

    def resolve_attr(self, base, attr):
        if base[0] == 'module':
            m = base[1]
            r = self.resolve_name(m, attr)
            if r is not None:
                return r
            sub = f'{m.name}.{attr}'
            if sub in self.modules:
                return ('module', self.modules[sub])
            return None
        if base[0] == 'ext':
            full = f'{base[1]}.{attr}'
            if full in self.modules:
                return ('module', self.modules[full])
            return ('ext', full)
        if base[0] == 'class':
            r = base[1].lookup(attr)
            if r is None:
                return None
            if r[0] == 'method':
                return ('func', r[1])
            return ('const', r[1], base[1].module)
        return None

    # ------------------------------------------------------------------
    def func(self, qualname):
        full = qualname if qualname.startswith(PKG + '.') else f'{PKG}.{qualname}'
        fi = self.funcs.get(full) or self._reexported(full)
        if fi is None:
            raise AnalysisError(f'anchor function {full} not found in the current tree')
        return fi

    def _reexported(self, full):
        """a function that a module exposes under this name by importing it from elsewhere in the package"""
        modname, _, name = full.rpartition('.')
        mod = self.modules.get(modname)
        if mod is None:
            return None
        r = self.resolve_name(mod, name)
        if r is not None and r[0] == 'const':
            # name = SomeClass.method  /  name = other_function  (an alias kept for callers of the old name)
            r = self.resolve_expr(r[2], r[1]) if isinstance(r[1], (ast.Name, ast.Attribute)) else None
        return r[1] if r is not None and r[0] == 'func' else None

    def cls(self, qualname):
        full = qualname if qualname.startswith(PKG + '.') else f'{PKG}.{qualname}'
        ci = self.classes.get(full)
        if ci is None:
            raise AnalysisError(f'anchor class {full} not found in the current tree')
        return ci

    def synthetic(self, name):
        """Python-level model of a builtin (analysed like repository code; never reported as an anchor)."""
        mod = self.modules.get('<builtins>')
        if mod is None:
            tree = ast.parse(SYNTHETIC_SRC, filename='<builtins>')
            for n in ast.walk(tree):
                for ch in ast.iter_child_nodes(n):
                    ch._parent = n
            mod = Module('<builtins>', '<builtins>', tree, SYNTHETIC_SRC)
            self.modules['<builtins>'] = mod
            for st in tree.body:
                if isinstance(st, ast.ClassDef):
                    ci = ClassInfo(f'builtins.{st.name}', st, mod)
                    for cst in st.body:
                        if isinstance(cst, ast.FunctionDef):
                            mfi = FuncInfo(f'{ci.qualname}.{cst.name}', cst, mod, ci)
                            ci.methods[cst.name] = mfi
                            self._own(cst, mfi)
                    ci.mro = [ci, 'object']
                    ci.bases = ['object']
                    mod.symbols[st.name] = ('class', ci)
                    continue
                fi = FuncInfo(f'builtins.{st.name}', st, mod)
                mod.symbols[st.name] = ('func', fi)
                self._own(st, fi)
        b = mod.symbols.get(name)
        if b is None:
            raise AnalysisError(f'no synthetic model for {name}')
        return b[1]

    def has_func(self, qualname):
        full = qualname if qualname.startswith(PKG + '.') else f'{PKG}.{qualname}'
        return full in self.funcs or self._reexported(full) is not None

    def config_literal(self):
        """The packaged configuration: literal dict assigned to `config` in config.py."""
        mod = self.modules.get(f'{PKG}.config')
        if mod is None:
            raise AnalysisError('cardutil/config.py missing')
        b = mod.symbols.get('config')
        if not b or b[0] != 'const':
            raise AnalysisError('config.config is not a module-level assignment')
        try:
            return ast.literal_eval(b[1])
        except Exception as ex:
            raise AnalysisError(f'config.config is not a pure literal: {ex}')

    def loc(self, node):
        fi = self.node_owner.get(id(node))
        where = fi.module.path if fi else '?'
        fn = fi.short if fi else '?'
        return f'{where}:{getattr(node, "lineno", "?")} ({fn})'


def norm_text(node):
    """Normalised construct text (no line numbers, canonical formatting)."""
    try:
        return ast.unparse(node)
    except Exception:
        return type(node).__name__
