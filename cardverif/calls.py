"""Call dispatch and builtin transfer functions."""
from __future__ import annotations

import ast
import builtins

from .lin import Lin
from .avals import *   # noqa
from .avals import value_tags
from . import seqops
from .signals import Raised, Returned, Abandon
from . import ext


class CallMixin:


    def _consume_generator_args(self, args, node):
        """a generator handed to an external method is consumed there: it is summarised as a generic iterable when its body
        is `for x in src: yield e`, otherwise run to its end here (its effects and errors are those of the call)"""
        out = []
        for a in args:
            g = self.resolve(a)
            if isinstance(g, GenCallV) and not g.started:
                a = self.generator_as_iter(g, node) or self.drain_generator(g, node)
            out.append(a)
        return out
    def _next_loop(self, node):
        """next((elt for x in it if c), default)  ==  for x in it: if c: result = elt; break   else default / StopIteration"""
        tree = getattr(node, '_desugared', None)
        var = f'__next_{node.lineno}_{node.col_offset}'
        flag = var + '_found'
        if tree is None:
            g = node.args[0].generators[0]
            hit = [ast.Assign(targets=[ast.Name(id=var, ctx=ast.Store())], value=node.args[0].elt),
                   ast.Assign(targets=[ast.Name(id=flag, ctx=ast.Store())], value=ast.Constant(value=True)), ast.Break()]
            body = hit
            for cond in reversed(g.ifs):
                body = [ast.If(test=cond, body=body, orelse=[])]
            loop = ast.For(target=g.target, iter=g.iter, body=body, orelse=[])
            init = [ast.Assign(targets=[ast.Name(id=var, ctx=ast.Store())], value=ast.Constant(value=None)),
                    ast.Assign(targets=[ast.Name(id=flag, ctx=ast.Store())], value=ast.Constant(value=False))]
            tree = init + [loop]
            for t in tree:
                ast.copy_location(t, node)
                ast.fix_missing_locations(t)
                for n in ast.walk(t):
                    for ch in ast.iter_child_nodes(n):
                        ch._parent = n
            fi = self.prog.node_owner.get(id(node))
            if fi is not None:
                for t in tree:
                    for n in ast.walk(t):
                        self.prog.node_owner.setdefault(id(n), fi)
            node._desugared = tree
        fr = self.frames[-1]
        tnames = [n.id for n in ast.walk(node.args[0].generators[0].target) if isinstance(n, ast.Name)]
        saved = {n: fr.locals[n] for n in tnames if n in fr.locals}
        self.exec_block(tree)
        r = fr.locals.pop(var, ConstV(None))
        found = fr.locals.pop(flag, ConstV(False))
        for n in tnames:
            fr.locals.pop(n, None)
        fr.locals.update(saved)
        if self.truth(found):
            return r
        if len(node.args) == 2:
            return self.eval(node.args[1])
        raise Raised(ExcV(StopIteration, [], node=node, stack=self.stack, op='next() of an exhausted generator', definite=True))

    def _anyall_loop(self, node):
        """any(f(x) for x in it)  ==  for x in it: if f(x): result = True; break   (the calls may have effects)"""
        tree = getattr(node, '_desugared', None)
        is_any = node.func.id == 'any'
        var = f'__{node.func.id}_{node.lineno}_{node.col_offset}'
        if tree is None:
            g = node.args[0].generators[0]
            test = node.args[0].elt if is_any else ast.UnaryOp(op=ast.Not(), operand=node.args[0].elt)
            hit = [ast.Assign(targets=[ast.Name(id=var, ctx=ast.Store())], value=ast.Constant(value=is_any)), ast.Break()]
            body = [ast.If(test=test, body=hit, orelse=[])]
            for cond in reversed(g.ifs):
                body = [ast.If(test=cond, body=body, orelse=[])]
            loop = ast.For(target=g.target, iter=g.iter, body=body, orelse=[])
            init = ast.Assign(targets=[ast.Name(id=var, ctx=ast.Store())], value=ast.Constant(value=not is_any))
            tree = [init, loop]
            for t in tree:
                ast.copy_location(t, node)
                ast.fix_missing_locations(t)
                for n in ast.walk(t):
                    for ch in ast.iter_child_nodes(n):
                        ch._parent = n
            fi = self.prog.node_owner.get(id(node))
            if fi is not None:
                for t in tree:
                    for n in ast.walk(t):
                        self.prog.node_owner.setdefault(id(n), fi)
            node._desugared = tree
        fr = self.frames[-1]
        saved = {n.id: fr.locals[n.id] for n in ast.walk(node.args[0].generators[0].target)
                 if isinstance(n, ast.Name) and n.id in fr.locals}
        self.exec_block(tree)
        r = fr.locals.pop(var, ConstV(not is_any))
        for n in ast.walk(node.args[0].generators[0].target):
            if isinstance(n, ast.Name):
                fr.locals.pop(n.id, None)
        fr.locals.update(saved)
        return r

    def ex_Call(self, node):
        # super() needs the frame
        if isinstance(node.func, ast.Name) and node.func.id == 'super':
            return self._super(node)
        if isinstance(node.func, ast.Name) and node.func.id in ('any', 'all') and len(node.args) == 1 and not node.keywords \
                and isinstance(node.args[0], (ast.GeneratorExp, ast.ListComp)) and len(node.args[0].generators) == 1 \
                and not self.nofork and any(isinstance(n, ast.Call) for n in ast.walk(node.args[0].elt)) \
                and not any(node.func.id in f.locals for f in self.frames[-1:]):
            return self._anyall_loop(node)
        if isinstance(node.func, ast.Name) and node.func.id == 'next' and len(node.args) in (1, 2) and not node.keywords \
                and isinstance(node.args[0], ast.GeneratorExp) and len(node.args[0].generators) == 1 and not self.nofork \
                and 'next' not in self.frames[-1].locals:
            return self._next_loop(node)
        fv = self.eval(node.func)
        args = []
        for a in node.args:
            if isinstance(a, ast.Starred):
                v = self.resolve(self.eval(a.value))
                if isinstance(v, TupleV) or (isinstance(v, ListV) and v.items is not None):
                    args.extend(v.items)
                else:
                    args.append(SymV(self.fresh('star'), 'star', origin=v))
                    self.event('star-args', node, value=v)
            else:
                args.append(self.eval(a))
        kwargs = {}
        for k in node.keywords:
            v = self.eval(k.value)
            if k.arg is None:
                v = self.resolve(v)
                if isinstance(v, DictV) and not v.open and v.default is None and not v.sym_stores and \
                        getattr(v, 'star', None) is None:
                    for kk, vv in v.items.items():
                        kwargs.setdefault(kk, vv)
                else:
                    if isinstance(v, DictV):
                        for kk, vv in v.items.items():
                            kwargs.setdefault(kk, vv)
                    kwargs['**'] = v
            else:
                kwargs[k.arg] = v
        self.an.visited_calls.add(id(node))
        return self.call_value(fv, args, kwargs, node)

    def _super(self, node):
        fr = self.frames[-1]
        if fr.cls is None:
            self.note_unknown(node, 'super() outside class')
            return UnkV('super')
        owner = fr.cls
        if node.args:
            c = self.eval(node.args[0])
            if isinstance(c, ClassV):
                owner = c.ci
        obj = fr.self_obj
        if obj is None and getattr(fr, 'cls_obj', None) is not None:
            return SuperV(None, fr.cls_obj.ci, owner)
        dyn = obj.cls if isinstance(obj, (ObjV, ExcV)) else owner
        if not hasattr(dyn, 'mro'):
            dyn = owner
        return SuperV(obj, dyn, owner)

    def call_value(self, fv, args, kwargs, node):
        fv = self.resolve(fv)
        if isinstance(fv, FuncV):
            if getattr(fv, 'memo', None) is not None:
                # functools.lru_cache / cache: one result object per distinct argument tuple, shared by all callers
                try:
                    ck = ('lru', fv.fi.qualname, tuple(self.py_key(a) for a in args), tuple(sorted((k, self.py_key(v)) for k, v in kwargs.items())))
                    hash(ck)
                except TypeError:
                    ck = None
                if ck is not None and all(x is not None for x in ck[2]) and all(v is not None for _k, v in ck[3]):
                    if ck in self.modcache and getattr(fv, 'bounded', False) and \
                            self.choose(2, f'lru_cache of {fv.fi.name}: hit / evicted') == 1:
                        del self.modcache[ck]      # a bounded lru_cache forgets
                    if ck not in self.modcache:
                        r = self.call_value(fv.memo, args, kwargs, node)
                        if isinstance(r, (DictV, ListV, ObjV)):
                            r.tags = frozenset(r.tags) | {'global', 'cached'}
                            if isinstance(r, (DictV, ListV)):
                                r.desc = f'cached result of {fv.fi.name}()'
                        elif isinstance(r, IntV):
                            r = IntV(r.lin, frozenset(r.tags) | {'cached'})
                        self.modcache[ck] = r
                    return self.modcache[ck]
                # symbolic arguments: executed; whether two calls share their result is not tracked, so a mutable result
                # counts as possibly shared
                r = self.call_value(fv.memo, args, kwargs, node)
                if isinstance(r, (DictV, ListV, ObjV)):
                    r.tags = frozenset(r.tags) | {'global', 'cached'}
                return r
            return self.call_function(fv.fi, args, kwargs, self_obj=fv.self_obj, node=node, cls_obj=fv.cls_obj,
                                      closure=getattr(fv, 'closure', None), raw=bool(getattr(fv, 'raw', False)))
        if isinstance(fv, ClassV):
            return self.instantiate(fv.ci, args, kwargs, node)
        if isinstance(fv, ExtV):
            return self.call_ext(fv.name, args, kwargs, node)
        if isinstance(fv, BoundExt):
            return self.call_method(fv.recv, fv.name, args, kwargs, node)
        if isinstance(fv, ext.NamedTupleClass):
            vals = list(args)
            for name in fv.fields[len(vals):]:
                if name in kwargs:
                    vals.append(kwargs[name])
                else:
                    self.note_unknown(node, f'namedtuple field {name} not supplied')
                    vals.append(UnkV(name))
            t = TupleV(vals)
            t.names = list(fv.fields)
            return t
        if isinstance(fv, PartialV):
            if fv.kind == 'partial':
                return self.call_value(fv.fn, fv.args + list(args), {**fv.kwargs, **kwargs}, node)
            if fv.kind == 'methodcaller' and len(args) == 1:
                name = self.py_key(fv.fn)
                if isinstance(name, str):
                    return self.call_value(self.get_attr(args[0], name, node), list(fv.args), dict(fv.kwargs), node)
            if fv.kind == 'itemgetter' and len(args) == 1 and len(fv.args) == 1:
                return self.get_item(args[0], fv.args[0], node)
            if fv.kind == 'attrgetter' and len(args) == 1 and len(fv.args) == 1:
                name = self.py_key(fv.args[0])
                if isinstance(name, str) and '.' not in name:
                    return self.get_attr(args[0], name, node)
            self.note_unknown(node, f'call of {fv!r}')
            return UnkV('call')
        if isinstance(fv, ObjV):
            r = fv.cls.lookup('__call__')
            if r is not None and r[0] == 'method':
                return self.call_function(r[1], args, kwargs, self_obj=fv, node=node)
        if isinstance(fv, (SymV, UnkV)):
            self.event('call-opaque', node, callee=fv, args=args, kwargs=kwargs)
            if isinstance(fv, UnkV):
                return UnkV('call of unknown')
            return SymV(self.fresh('ret'), 'any', origin=('call', fv, args, kwargs), tags=value_tags(fv))
        self.note_unknown(node, f'call of {fv!r}')
        return UnkV('call')

    # ---------------------------------------------------------------- classes
    def is_exception_class(self, ci):
        for b in ci.external_bases():
            pc = self.py_exc_class(b)
            if pc is not None:
                return True
        return False

    def instantiate(self, ci, args, kwargs, node):
        if self.is_exception_class(ci):
            return self.instantiate_exc(ci, args, kwargs, node)
        if self.is_enum(ci) and len(args) == 1 and not kwargs:
            # Enum lookup by value
            for m in self.enum_members(ci):
                if self.equal(self.resolve(args[0]), m.fields['value'], node):
                    return m
            import builtins
            raise Raised(ExcV(builtins.ValueError, [], node=node, stack=self.stack, op=f'{ci.name}(value): no such member', definite=True))
        nt_base = any(getattr(c, 'namedtuple_base', False) for c in ci.mro if not isinstance(c, str))
        record_like = any(d.split('(')[0].endswith('dataclass') for d in ci.decorators) or nt_base or \
            any(isinstance(b, str) and b.endswith('NamedTuple') for b in ci.mro)
        if record_like and ci.ann_fields and (ci.lookup('__init__') is None):
            vals = list(args)
            if nt_base or any(isinstance(b, str) and b.endswith('NamedTuple') for b in ci.mro):
                for name in ci.ann_fields[len(vals):]:
                    vals.append(kwargs[name] if name in kwargs else
                                (self.eval_in_module(ci.module, ci.attrs[name]) if name in ci.attrs else UnkV(name)))
                t = TupleV(vals)
                t.names = list(ci.ann_fields)
                t.cls = ci
                return t
            obj = ObjV(ci)
            for i, name in enumerate(ci.ann_fields):
                if i < len(vals):
                    obj.fields[name] = vals[i]
                elif name in kwargs:
                    obj.fields[name] = kwargs[name]
                elif name in ci.attrs:
                    obj.fields[name] = self.eval_in_module(ci.module, ci.attrs[name])
                else:
                    self.note_unknown(node, f'dataclass field {name} not supplied')
            self.event('new', node, cls=ci, obj=obj, args=args, kwargs=kwargs)
            return obj
        obj = ObjV(ci)
        self.event('new', node, cls=ci, obj=obj, args=args, kwargs=kwargs)
        r = ci.lookup('__init__')
        if r is not None and r[0] == 'method':
            self.call_function(r[1], args, kwargs, self_obj=obj, node=node)
        return obj

    def instantiate_exc(self, ci, args, kwargs, node):
        exc = ExcV(ci, args, kwargs, node=node, stack=self.stack)
        r = ci.lookup('__init__')
        if r is not None and r[0] == 'method':
            self.call_function(r[1], args, kwargs, self_obj=exc, node=node)
        return exc

    # ---------------------------------------------------------------- externals
    def call_ext(self, name, args, kwargs, node):
        pc = self.py_exc_class(name)
        if pc is not None:
            return ExcV(pc, args, kwargs, node=node, stack=self.stack)
        f = BUILTINS.get(name) or ext.EXT.get(name)
        if f is not None:
            r = f(self, args, kwargs, node)
            self.event('ext-call', node, callee=name, args=args, kwargs=kwargs, result=r)
            return r
        if args and name.split('.')[-1] in ('encryptor', 'decryptor') and 'Cipher' in name and \
                isinstance(self.resolve(args[0]), SymV) and self.resolve(args[0]).kind == 'ext':
            # the unbound method taken from the class (Cipher.encryptor(cipher)): the same as the call on the object
            return self.call_method(args[0], name.split('.')[-1], list(args[1:]), kwargs, node)
        total = name in ext.TOTAL_EXT or any(name.startswith(p) for p in ext.TOTAL_PREFIX)
        r = SymV(self.fresh(name.split('.')[-1]), 'ext', origin=('call', name, args, kwargs),
                 tags=frozenset().union(*[value_tags(a) for a in args]) if args else frozenset())
        self.event('ext-call', node, callee=name, args=args, kwargs=kwargs, result=r)
        if not total:
            self.note_unknown(node, f'external call {name}')
        return r

    def call_method(self, recv, name, args, kwargs, node):
        recv = self.resolve(recv)
        f = None
        if isinstance(recv, SeqV):
            f = ext.SEQ_METHODS.get(name)
        elif isinstance(recv, ListV):
            f = ext.LIST_METHODS.get(name)
        elif isinstance(recv, (DictV, PyLit)):
            f = ext.DICT_METHODS.get(name)
        elif isinstance(recv, FileV):
            f = ext.FILE_METHODS.get(name)
        elif isinstance(recv, IntV):
            f = ext.INT_METHODS.get(name)
        elif isinstance(recv, SuperV):
            # method of an external base class (object.__init__, Exception.__init__ ...)
            self.event('super-ext-call', node, name=name, args=args)
            ext_bases = [b for b in recv.cls.external_bases() if b not in ('object', 'builtins.object')]
            if name == '__init__' and len(ext_bases) == 1 and recv.obj is not None and not self.is_exception_class(recv.cls):
                # constructing the external base part of the object: the same event as a direct construction
                self.event('ext-call', node, callee=ext_bases[0], args=list(args), kwargs=dict(kwargs), result=recv.obj,
                           via_super=True)
            return ConstV(None)
        elif isinstance(recv, ext.ParserV):
            r = ext.parser_method(self, recv, name, list(args), dict(kwargs), node)
            self.event('method', node, recv=recv, name=name, args=args, kwargs=kwargs, result=r)
            return r
        elif isinstance(recv, ext.StructV):
            if name == 'pack':
                r = ext.e_struct_pack(self, [recv.fmt] + list(args), kwargs, node)
                self.event('ext-call', node, callee='struct.pack', args=[recv.fmt] + list(args), kwargs=kwargs, result=r)
                return r
            if name == 'unpack':
                r = ext.e_struct_unpack(self, [recv.fmt] + list(args), kwargs, node)
                self.event('ext-call', node, callee='struct.unpack', args=[recv.fmt] + list(args), kwargs=kwargs, result=r)
                return r
            if name == 'unpack_from' and args:
                # unpack_from(buffer, offset=0): the first `size` bytes from offset (struct.error when fewer are there)
                import struct as _struct
                fmt = self.py_key(recv.fmt)
                off = self.as_lin(args[1] if len(args) > 1 else kwargs.get('offset', IntV(0)))
                buf = self.resolve(args[0])
                if isinstance(fmt, (str, bytes)) and off is not None and isinstance(buf, SeqV) and buf.kind == 'bytes':
                    size = _struct.calcsize(fmt)
                    if not self.store.prove_ge0(buf.length() - off - size):
                        try:
                            self.may_raise(_struct.error, node, f'struct.unpack_from needs {size} bytes at offset {off}',
                                           wire='wire' in value_tags(buf))
                        except Raised:
                            # it raises exactly when the buffer is too short
                            self.assume_ge0(off + size - 1 - buf.length())
                            raise
                        self.assume_ge0(buf.length() - off - size)
                    part = seqops.slice_seq(self, buf, off, off + size)
                    self.event('slice', node, obj=buf, lo=off, hi=off + size, result=part)
                    r = ext.e_struct_unpack(self, [recv.fmt, part], {}, node)
                    self.event('ext-call', node, callee='struct.unpack', args=[recv.fmt, part], kwargs={}, result=r)
                    return r
        elif isinstance(recv, TupleV):
            f = None
            if name == '_replace' and getattr(recv, 'names', None) and not args and all(k in recv.names for k in kwargs):
                t = TupleV([kwargs.get(n, x) for n, x in zip(recv.names, recv.items)])
                t.names = list(recv.names)
                if getattr(recv, 'cls', None) is not None:
                    t.cls = recv.cls
                return t
            if name == '_asdict' and getattr(recv, 'names', None) and not args:
                return DictV(items=dict(zip(recv.names, recv.items)))
        if f is not None:
            r = f(self, recv, args, kwargs, node)
            self.event('method', node, recv=recv, name=name, args=args, kwargs=kwargs, result=r)
            return r
        if isinstance(recv, SymV):
            g = ext.SYM_METHODS.get((recv.kind, name)) or ext.SYM_METHODS.get(('*', name))
            if g is not None:
                r = g(self, recv, args, kwargs, node)
                self.event('method', node, recv=recv, name=name, args=args, kwargs=kwargs, result=r)
                return r
            args = self._consume_generator_args(args, node)
            r = SymV(self.fresh(name), 'ext' if recv.kind == 'ext' else 'any',
                     origin=('method', recv, name, args, kwargs), tags=value_tags(recv))
            self.event('method', node, recv=recv, name=name, args=args, kwargs=kwargs, result=r)
            if recv.kind not in ('ext', 'logger', 'match') and not (recv.kind == 'ext'):
                self.event('opaque-method', node, recv=recv, name=name)
            return r
        if isinstance(recv, UnkV):
            return UnkV(f'method {name} of unknown')
        if isinstance(recv, ObjV) and [b for b in recv.cls.external_bases() if b not in ('object', 'builtins.object')]:
            # inherited from an external base class: an opaque call on this object
            args = self._consume_generator_args(args, node)
            r = SymV(self.fresh(name), 'ext', origin=('method', recv, name, args, kwargs))
            self.event('method', node, recv=recv, name=name, args=args, kwargs=kwargs, result=r)
            return r
        if isinstance(recv, IterV) and name in ('__next__',):
            return recv.elem
        self.note_unknown(node, f'method {name} of {recv!r}')
        return UnkV(f'method {name}')


# ====================================================================== builtins
def _lin(it, v):
    return it.as_lin(v)


def b_len(it, args, kwargs, node):
    v = it.resolve(args[0])
    if isinstance(v, SeqV):
        return IntV(v.length())
    if isinstance(v, ListV):
        if v.len is not None:
            return IntV(v.len)
    if isinstance(v, TupleV):
        return IntV(len(v.items))
    if isinstance(v, DictV) and not v.open and not v.sym_stores and v.default is None:
        return IntV(len(v.items))
    if isinstance(v, PyLit):
        return IntV(len(v.value))
    if isinstance(v, RangeV):
        return IntV(it.range_count(v))
    if isinstance(v, (ConstV, IntV)):
        raise Raised(ExcV(TypeError, [], node=node, stack=it.stack, op=f'len({v!r})', definite=True))
    if isinstance(v, ObjV):
        it.note_unknown(node, f'len of object {v!r}')
    s = it.fresh('len')
    it.store.declare(s, 0, None, info=f'len({v!r})')
    if not isinstance(v, (SymV, DictV, IterV)):
        it.store.__dict__.setdefault('opaque', set()).add(s)
    return IntV(Lin.sym(s), tags=value_tags(v))


def _seq_key(it, s):
    return it._seq_key(s)


def _is_digit_seq(it, v):
    """Is the str/bytes descriptor known to consist of decimal digits (and non-empty)?"""
    if not v.segs:
        return False
    for g in v.segs:
        if isinstance(g, Lit):
            d = g.data if isinstance(g.data, str) else g.data.decode('latin_1')
            if not (d.isascii() and d.isdigit()):
                return False
        elif isinstance(g, Num):
            if g.base != 10 or (g.vrange and g.vrange[0] is not None and g.vrange[0] < 0) or g.fill not in ('0',) and g.minw > 1:
                return False
            if g.val is not None and not it.store.prove_ge0(g.val):
                return False
            if g.val is None and not (g.vrange and g.vrange[0] is not None and g.vrange[0] >= 0):
                return False
        elif isinstance(g, Sl):
            if g.src.charset != 'digits' and not it.binds.get(('digits', g.src.id)):
                return False
        elif isinstance(g, Rep):
            u = g.unit
            if not isinstance(u, (str, bytes)):
                return False
            u = u if isinstance(u, str) else u.decode('latin_1')
            if not u.isdigit():
                return False
        else:
            return False
    return it.store.prove_ge0(v.length() - 1)


def b_int(it, args, kwargs, node):
    if not args:
        return IntV(0)
    v = it.resolve(args[0])
    base = 10
    if len(args) > 1 or 'base' in kwargs:
        b = it.py_key(args[1] if len(args) > 1 else kwargs['base'])
        if not isinstance(b, int):
            it.note_unknown(node, 'int() with non-constant base')
            return it._opaque_int('int', node)
        base = b
    if isinstance(v, IntV):
        return v
    if isinstance(v, ConstV) and isinstance(v.value, bool):
        return IntV(int(v.value))
    if isinstance(v, SeqV):
        tags = value_tags(v)
        wire = 'wire' in tags
        if v.is_lit():
            try:
                return IntV(int(v.lit_value(), base))
            except ValueError:
                raise Raised(ExcV(ValueError, [], node=node, stack=it.stack, op=f'int({v!r})', definite=True))
        # zero fill followed by a numeral in the same base: the fill does not change the value
        if len(v.segs) == 2 and isinstance(v.segs[1], Num) and v.segs[1].base == base and v.segs[1].val is not None \
                and it.store.prove_ge0(v.segs[1].val) and _is_zero_fill(v.segs[0]):
            it.op_safe(node, 'int', 'zero-filled numeral rendered in the same base')
            return IntV(v.segs[1].val, tags)
        # exact inverse of a numeral
        if len(v.segs) == 1 and isinstance(v.segs[0], Num):
            n = v.segs[0]
            if n.base == base and (n.fill in ('0', ' ') or n.minw <= 1):
                it.op_safe(node, 'int', 'argument is a numeral rendered in the same base')
                if n.val is not None:
                    return IntV(n.val, tags)
                s = it.fresh('t')
                lo, hi = n.vrange if n.vrange else (None, None)
                it.store.declare(s, lo, hi, info=f'int of numeral {n.vdesc}')
                r = IntV(Lin.sym(s), tags)
                r.origin = ('int-of-num', n)
                return r
            # rendered in another base: digits are still parseable only if digit set fits
            it.event('radix-mismatch', node, rendered=n.base, parsed=base, num=n)
            if n.base < base or n.base == base:
                pass
        ln = it.store.canon(v.length())
        safe = False
        why = None
        if base == 10 and _is_digit_seq(it, v):
            safe, why = True, 'argument consists of decimal digits'
        if it.binds.get(('digits', _seq_key(it, v))):
            safe, why = True, 'dominated by a digit test on the same value'
        if base == 16 and all(isinstance(g, Opq) and isinstance(g.desc, tuple) and g.desc and g.desc[0] == 'hexlify'
                              for g in v.segs) and it.store.prove_ge0(v.length() - 1):
            safe, why = True, 'argument is hexlify() of a non-empty value'
        if base == 16 and not safe and _is_hex_seq(it, v):
            safe, why = True, 'argument consists of hexadecimal digits'
        if base == 2 and all(isinstance(g, Opq) and isinstance(g.desc, tuple) and g.desc[0] == 'join-bits' for g in v.segs) \
                and it.store.prove_ge0(v.length() - 1):
            safe, why = True, 'argument is a join of 0/1 characters'
        if not safe:
            it.may_raise(ValueError, node, f'int({_short(v)}, {base})', wire=wire)
        else:
            it.op_safe(node, 'int', why)
        memo = it.__dict__.setdefault('_pure_memo', {})
        mk = ('int', _seq_key(it, v), base)
        if mk in memo:
            # the same text parsed again gives the same number
            return IntV(Lin.sym(memo[mk]), tags | ({'wire-int'} if wire else set()))
        s = it.fresh('t')
        memo[mk] = s
        lo = hi = None
        if ln.is_const() and ln.c >= 1 and ln.c <= 64:
            hi = base ** ln.c - 1
            lo = 0 if safe else -(base ** (ln.c - 1) - 1)
        else:
            # a text of at most h characters: at most h digits, or a sign and h-1 digits
            h = it.store.hi(ln)
            if h is None:
                # a slice clamped by the end of the data: its length is bounded by a relation between symbols
                h = next((k for k in (1, 2, 3, 4, 6, 8, 12, 16, 19) if it.store.prove_ge0(Lin.const(k) - ln)), None)
            if safe:
                lo = 0
            if h is not None and 1 <= h <= 64:
                hi = base ** h - 1
                if not safe:
                    lo = -(base ** (h - 1) - 1)
        it.store.declare(s, lo, hi, info=f'int({_short(v)}, {base})')
        if any(not isinstance(g, (Sl, Lit)) for g in v.segs):
            # the text was computed (zfill, a numeral of unknown value, an opaque conversion ...): the number it denotes is a
            # function of other values that is not written down, so it cannot be chosen freely in a witness
            it.store.__dict__.setdefault('opaque', set()).add(s)
        r = IntV(Lin.sym(s), tags | ({'wire-int'} if wire else set()))
        it.origin[s] = ('int', v, base)
        return r
    if isinstance(v, (SymV, UnkV)):
        if not (isinstance(v, SymV) and v.kind in ('int',)):
            it.may_raise(ValueError, node, f'int({v!r})', wire='wire' in value_tags(v))
        if isinstance(v, SymV) and v.kind in ('decimal', 'float'):
            # Decimal('Infinity') / float('inf') are values: int() of them is OverflowError (NaN is the ValueError above)
            it.may_raise(OverflowError, node, f'int({v!r}) of an infinite value', wire='wire' in value_tags(v))
        s = it.fresh('t')
        it.store.declare(s, None, None, info=f'int({v!r})')
        it.origin[s] = ('int', v, base)
        return IntV(Lin.sym(s), value_tags(v))
    it.note_unknown(node, f'int({v!r})')
    return it._opaque_int('int', node)


def _is_zero_fill(g):
    if isinstance(g, Rep):
        return g.unit in ('0', b'0')
    return isinstance(g, Opq) and isinstance(g.desc, tuple) and g.desc[0] == 'recode-rep' and g.desc[1] == '0'


def _is_hex_seq(it, v):
    if not v.segs:
        return False
    for g in v.segs:
        if isinstance(g, Lit):
            d = g.data if isinstance(g.data, str) else g.data.decode('latin_1')
            if not all(c in '0123456789abcdefABCDEF' for c in d):
                return False
        elif isinstance(g, Num):
            if g.base not in (10, 16, 2, 8):
                return False
            if g.val is not None and not it.store.prove_ge0(g.val):
                return False
            if g.val is None and not (g.vrange and g.vrange[0] is not None and g.vrange[0] >= 0):
                return False
            if g.fill not in '0123456789abcdefABCDEF' and g.minw > 1:
                return False
        elif isinstance(g, Sl):
            if g.src.charset not in ('digits', 'hex'):
                return False
        elif isinstance(g, Rep):
            u = g.unit
            if not isinstance(u, (str, bytes)):
                return False
            u = u if isinstance(u, str) else u.decode('latin_1')
            if not all(c in '0123456789abcdefABCDEF' for c in u):
                return False
        elif isinstance(g, Opq):
            if not (isinstance(g.desc, tuple) and g.desc and g.desc[0] in ('hexlify',)):
                return False
        else:
            return False
    return it.store.prove_ge0(v.length() - 1)


def _short(v):
    r = repr(v)
    return r if len(r) <= 80 else r[:77] + '...'


def b_str(it, args, kwargs, node):
    if not args:
        return lit('')
    v = it.resolve(args[0])
    if len(args) > 1 and isinstance(v, SeqV) and v.kind == 'bytes':
        return ext.seq_decode(it, v, args[1:], kwargs, node)
    return seqops.to_str(it, v, node)


def b_bytes(it, args, kwargs, node):
    if not args:
        return lit(b'')
    v = it.resolve(args[0])
    if isinstance(v, SeqV) and v.kind == 'bytes':
        return v
    if isinstance(v, SeqV) and v.kind == 'str' and len(args) > 1:
        return ext.seq_encode(it, v, args[1:], kwargs, node)
    l = it.as_lin(v)
    if l is not None:
        return seqops.normalise(it, 'bytes', (Rep(b'\x00', l),))
    if isinstance(v, (IterV, ListV)) and not getattr(v, 'filtered', False) and v.len is not None and \
            isinstance(v.elem if not (isinstance(v, ListV) and v.items is not None) else None, IntV):
        x = _xor_bytes_value(it, v.elem, v.len)
        if x is not None:
            return x
        lo, hi = it.store.bounds(v.elem.lin)
        if lo is not None and hi is not None and lo >= 0 and hi <= 255:
            return seqops.opaque(it, 'bytes', v.len, ('bytes-of', v.elem), deps=(v.elem,), tags=value_tags(v.elem))
    return seqops.opaque_fresh(it, 'bytes', f'bytes({v!r})', tags=value_tags(v))


def _is_zero_bytes(it, sv):
    return isinstance(sv, SeqV) and all((isinstance(g, Rep) and g.unit == b'\x00') or
                                        (isinstance(g, Lit) and set(g.data) <= {0}) for g in sv.segs)


def _xor_bytes_value(it, elem, length):
    """bytes(a ^ b ^ ... for a, b, ... in zip(A, B, ...)) -> the elementwise XOR of index-aligned byte strings."""
    syms = elem.lin.syms()
    if not (len(syms) == 1 and elem.lin == Lin.sym(syms[0])):
        return None
    o = it.origin.get(syms[0])
    if isinstance(o, tuple) and o and o[0] == 'byte-of':
        atoms = [Lin.sym(syms[0])]
    elif isinstance(o, tuple) and o and o[0] == 'xor':
        atoms = list(o[1])
    else:
        return None
    seqs, tokens = [], set()
    for a in atoms:
        asy = a.syms()
        if not (len(asy) == 1 and a == Lin.sym(asy[0])):
            return None
        ao = it.origin.get(asy[0])
        if not (isinstance(ao, tuple) and ao and ao[0] == 'byte-of'):
            return None
        tokens.add(ao[2])
        seqs.append(ao[1])
    if len(tokens) != 1 or None in tokens:
        return None
    flat = []
    for sv in seqs:
        if _is_zero_bytes(it, sv):
            continue
        if len(sv.segs) == 1 and isinstance(sv.segs[0], Opq) and isinstance(sv.segs[0].desc, tuple) and \
                sv.segs[0].desc and sv.segs[0].desc[0] == 'xorb':
            inner = list(sv.segs[0].desc[1])
        else:
            inner = [sv]
        for x in inner:
            # equal operands cancel
            k = next((i for i, y in enumerate(flat) if y is x or repr(y) == repr(x)), None)
            if k is None:
                flat.append(x)
            else:
                del flat[k]
    tags = frozenset().union(*[value_tags(x) for x in flat]) if flat else frozenset()
    if not flat:
        return seqops.normalise(it, 'bytes', (Rep(b'\x00', length),))
    return seqops.opaque(it, 'bytes', length, ('xorb', tuple(flat)), deps=tuple(flat), tags=tags)


def b_format(it, args, kwargs, node):
    v = it.resolve(args[0])
    spec = ''
    if len(args) > 1:
        sv = it.resolve(args[1])
        if isinstance(sv, SeqV) and sv.is_lit():
            spec = sv.lit_value()
        elif seqops.split_spec(it, sv) is not None:
            pre, w, suf = seqops.split_spec(it, sv)
            return seqops.format_value_symw(it, v, pre, w, suf, node)
        else:
            if isinstance(v, (IntV, SeqV)):
                it.note_unknown(node, f'format() with non-constant spec {sv!r}')
            return seqops.opaque_fresh(it, 'str', 'format(?)', deps=(v,), tags=value_tags(v))
    return it.do_format(v, spec, node)


def b_range(it, args, kwargs, node):
    ls = [it.as_lin(a) for a in args]
    if any(l is None for l in ls):
        it.note_unknown(node, 'range() of non-int')
        return IterV(it.sym_int('i'), desc='range')
    if len(ls) == 1:
        return RangeV(Lin.const(0), ls[0])
    if len(ls) == 2:
        return RangeV(ls[0], ls[1])
    st = it.store.canon(ls[2])
    if st.is_const() and st.c == 1:
        return RangeV(ls[0], ls[1])
    lo, hi = it.store.canon(ls[0]), it.store.canon(ls[1])
    if st.is_const() and st.c != 0 and lo.is_const() and hi.is_const():
        vals = list(range(lo.c, hi.c, st.c))
        if len(vals) <= 8:
            return ListV(items=[IntV(x) for x in vals])
    if st.is_const() and (st.c > 1 or st.c < 0):
        return RangeV(ls[0], ls[1], st.c)
    it.note_unknown(node, 'range() with a symbolic step')
    return IterV(it.sym_int('i'), desc='range-step')


def b_sorted(it, args, kwargs, node):
    v = it.resolve(args[0])
    rev = kwargs.get('reverse')
    order = 'asc'
    if rev is not None:
        order = 'desc' if it.truth(rev) else 'asc'
    by_first = False
    if 'key' in kwargs:
        kf = it.resolve(kwargs['key'])
        if isinstance(kf, PartialV) and kf.kind == 'itemgetter' and len(kf.args) == 1 and it.py_key(kf.args[0]) == 0:
            by_first = True         # key=operator.itemgetter(0): ordered by the first component (dictionary items: by key)
        else:
            order = None
    elem, ln = it.iter_element(v, node)
    if isinstance(v, ListV) and v.items is not None and order:
        # tuples whose first components are distinct constants (dictionary items): ordered by that component alone
        tk = [it.py_key(x.items[0]) if isinstance(it.resolve(x), TupleV) and it.resolve(x).items else None for x in v.items]
        if v.items and None not in tk and len(set(map(repr, tk))) == len(tk):
            try:
                idx = sorted(range(len(tk)), key=lambda i: tk[i], reverse=(order == 'desc'))
                r = ListV(items=[v.items[i] for i in idx], order=order)
                r.exact_ok = bool(getattr(v, 'exact_ok', False))
                return r
            except TypeError:
                pass
    if isinstance(v, ListV) and v.items is not None:
        pk = [it.py_key(x) for x in v.items]
        if None not in pk and order:
            try:
                return ListV(items=[it.from_py(x) for x in sorted(pk, reverse=(order == 'desc'))], order=order)
            except TypeError:
                pass
    r = ListV(items=None, elem=elem, length=ln if ln is not None else getattr(v, 'len', None), order=order, desc='sorted')
    if r.len is None:
        s = it.fresh('n')
        it.store.declare(s, 0, None)
        r.len = Lin.sym(s)
    r.src = v
    return r


def b_issubclass(it, args, kwargs, node):
    """issubclass(C, T) for classes the analysis knows: library classes, python exception classes, tuples of them."""
    if len(args) != 2:
        it.note_unknown(node, 'issubclass arity')
        return UnkV('issubclass')
    c = it.resolve(args[0])
    if isinstance(c, ClassV):
        probe = ExcV(c.ci, [])
    elif isinstance(c, ExtV) and it.py_exc_class(c.name) is not None:
        probe = ExcV(it.py_exc_class(c.name), [])
    else:
        it.note_unknown(node, f'issubclass of {c!r}')
        return UnkV('issubclass')
    return ConstV(bool(it.exc_isinstance(probe, args[1])))


def b_isinstance(it, args, kwargs, node):
    v = it.resolve(args[0])
    t = args[1]
    names = []
    for x in (t.items if isinstance(t, TupleV) else [t]):
        if isinstance(x, ExtV):
            names.append(x.name)
        elif isinstance(x, ClassV):
            names.append(x.ci)
        else:
            names.append(None)
    res = None
    kind = None
    if isinstance(v, SeqV):
        kind = 'bytes' if v.kind == 'bytes' else 'str'
    elif isinstance(v, IntV):
        kind = 'int'
    elif isinstance(v, ConstV):
        kind = 'bool' if isinstance(v.value, bool) else ('NoneType' if v.value is None else 'float')
    elif isinstance(v, (DictV,)):
        kind = 'dict'
    elif isinstance(v, ListV):
        kind = 'list'
    elif isinstance(v, TupleV):
        kind = 'tuple'
    elif isinstance(v, SymV) and v.kind in ('datetime', 'decimal', 'float'):
        kind = {'datetime': 'datetime.datetime', 'decimal': 'decimal.Decimal', 'float': 'float'}[v.kind]
    elif isinstance(v, SymV) and (v.kind == 'str' or (v.choices and all(isinstance(c, str) for c in v.choices))):
        kind = 'str'          # a symbolic selector ranging over strings
    if kind is not None:
        for n in names:
            if isinstance(n, str) and (n == kind or (kind == 'bool' and n == 'int') or
                                       (n == 'bytes' and kind == 'bytes') or n.split('.')[-1] == kind.split('.')[-1]):
                return ConstV(True)
        return ConstV(False)
    if isinstance(v, (ObjV, ExcV)):
        for n in names:
            if isinstance(v.cls, type):
                # an exception of a python class: related to python classes only
                if isinstance(n, type) and issubclass(v.cls, n) or \
                        isinstance(n, str) and n.split('.')[-1] in {c.__name__ for c in v.cls.__mro__}:
                    return ConstV(True)
                continue
            if not isinstance(n, str) and n is not None and hasattr(v.cls, 'mro') and n in v.cls.mro:
                return ConstV(True)
        return ConstV(False)
    if isinstance(v, SymV):
        key = ('type', v.name)
        tn = tuple(n if isinstance(n, str) else getattr(n, 'qualname', None) for n in names)
        if key in it.binds:
            return ConstV(it.binds[key] in tn)
        r = it._fact_fork('isinstance', node, value=v, types=tn)
        if r and len(tn) == 1:
            it.binds[key] = tn[0]
        return ConstV(r)
    return ConstV(it._fact_fork('isinstance', node, value=v, types=names))


def b_hasattr(it, args, kwargs, node):
    obj = it.resolve(args[0])
    name = it.py_key(args[1])
    if isinstance(obj, ObjV) and name is not None:
        if name in obj.fields or obj.cls.lookup(name) is not None:
            return ConstV(True)
        if obj.cls.lookup('__getattr__') is not None:
            # proxies answer every name (possibly with None)
            return ConstV(True)
        return ConstV(False)
    if isinstance(obj, FileV) and name in ('read', 'write', 'seek', 'close'):
        return ConstV(True)
    key = ('hasattr', repr(obj), name)
    if key in it.binds:
        return ConstV(it.binds[key])
    r = it._fact_fork('hasattr', node, obj=obj, name=name)
    it.binds[key] = r
    return ConstV(r)


def b_getattr(it, args, kwargs, node):
    obj = it.resolve(args[0])
    name = it.py_key(args[1])
    if name is None:
        it.note_unknown(node, 'getattr with non-constant name')
        return UnkV('getattr')
    if isinstance(obj, FileV) and name not in ext.FILE_METHODS and name != 'closed':
        return SymV(it.fresh(f'{obj.name}.{name}'), 'any', origin=('attr', obj, name))
    return it.get_attr(obj, name, node)


def b_setattr(it, args, kwargs, node):
    obj = it.resolve(args[0])
    name = it.py_key(args[1])
    if name is None:
        it.note_unknown(node, 'setattr with non-constant name')
        return ConstV(None)
    it.set_attr(obj, name, args[2], node)
    return ConstV(None)


def b_enumerate(it, args, kwargs, node):
    v = it.resolve(args[0])
    start = Lin.const(0)
    sv = args[1] if len(args) > 1 else kwargs.get('start')
    if sv is not None:
        sl = it.as_lin(sv)
        if sl is None:
            it.note_unknown(node, 'enumerate with non-integer start')
        else:
            start = sl
    elem, ln = it.iter_element(v, node)
    idx = it.fresh('idx')
    # constant bounds are part of the declaration (they survive as facts about the elements of derived lists)
    lo_ = it.store.lo(start)
    hi_ = it.store.hi(start + ln - 1) if ln is not None else None
    it.store.declare(idx, lo_, hi_ if (hi_ is not None and lo_ is not None and hi_ >= lo_) else None)
    it.store.assume_ge0(Lin.sym(idx) - start)
    if ln is not None:
        it.store.assume_ge0(ln - 1 - (Lin.sym(idx) - start))
    r = IterV(TupleV([IntV(Lin.sym(idx)), elem]), src=v, desc='enumerate', length=ln)
    r.enum_start = start
    it.origin[idx] = ('enumerate', start, v, elem)
    return r


def b_zip(it, args, kwargs, node):
    elems = []
    lens = []
    token = it.fresh('zip')
    for a in args:
        e, ln = it.iter_element(it.resolve(a), node)
        # elements drawn by one zip() are index aligned
        if isinstance(e, IntV) and len(e.lin.syms()) == 1:
            o = it.origin.get(e.lin.syms()[0])
            if isinstance(o, tuple) and o and o[0] == 'byte-of':
                it.origin[e.lin.syms()[0]] = ('byte-of', o[1], token)
        elems.append(e)
        lens.append(ln)
    length = None
    if lens and all(l is not None for l in lens):
        # zip stops at the shortest operand
        best = lens[0]
        ok = True
        for l in lens[1:]:
            if it.store.prove_ge0(l - best):
                continue
            if it.store.prove_ge0(best - l):
                best = l
            else:
                ok = False
        if ok:
            length = best
        else:
            m = it.fresh('minlen')
            it.store.declare(m, 0, None, info='length of zip()')
            it.store.__dict__.setdefault('opaque', set()).add(m)     # m <= every length is all that is recorded
            for l in lens:
                it.store.assume_ge0(l - Lin.sym(m))
            length = Lin.sym(m)
    return IterV(TupleV(elems), src=args, desc='zip', length=length)


def b_sum(it, args, kwargs, node):
    s = it.fresh('sum')
    it.store.declare(s, None, None)
    it.store.__dict__.setdefault('opaque', set()).add(s)
    return IntV(Lin.sym(s))


def b_divmod(it, args, kwargs, node):
    a, b = it.as_lin(args[0]), it.as_lin(args[1])
    cb0 = it.store.canon(b) if b is not None else None
    if a is not None and cb0 is not None and cb0.is_const() and cb0.c > 0:
        q_, r_ = it.divmod_const(a, cb0.c)
        return TupleV([IntV(q_), IntV(r_)])
    q, r = it.fresh('q'), it.fresh('r')
    it.store.declare(q, None, None)
    it.store.__dict__.setdefault('opaque', set()).update((q, r))
    cb = it.store.canon(b) if b is not None else None
    if cb is not None and cb.is_const() and cb.c > 0:
        it.store.declare(r, 0, cb.c - 1)
    else:
        it.store.declare(r, None, None)
    return TupleV([IntV(Lin.sym(q)), IntV(Lin.sym(r))])


def b_list(it, args, kwargs, node):
    if not args:
        return ListV(items=[])
    v = it.resolve(args[0])
    if isinstance(v, ListV):
        if v.items is not None:
            return ListV(items=list(v.items))
        return ListV(items=None, elem=v.elem, length=v.len, order=v.order)
    if isinstance(v, TupleV):
        return ListV(items=list(v.items))
    elem, ln = it.iter_element(v, node)
    r = ListV(items=None, elem=elem, length=ln, desc='list()')
    if r.len is None:
        s = it.fresh('n')
        it.store.declare(s, 0, None)
        r.len = Lin.sym(s)
    r.src = v
    return r


def b_dict(it, args, kwargs, node):
    d = DictV(items={k: v for k, v in kwargs.items() if k != '**'})
    if args:
        v = it.resolve(args[0])
        if isinstance(v, DictV):
            d.items.update(v.items)
            d.open = v.open
            d.default = v.default
        else:
            d.open = True
    return d


def b_tuple(it, args, kwargs, node):
    if not args:
        return TupleV([])
    v = it.resolve(args[0])
    if isinstance(v, ListV) and v.items is not None:
        return TupleV(v.items)
    if isinstance(v, TupleV):
        return v
    return b_list(it, args, kwargs, node)


def b_print(it, args, kwargs, node):
    it.event('print', node, args=args)
    return ConstV(None)


def b_open(it, args, kwargs, node):
    mode = it.py_key(args[1]) if len(args) > 1 else it.py_key(kwargs['mode']) if 'mode' in kwargs else 'r'
    f = FileV(it.fresh('file'), mode=mode)
    f.open_args = (args, kwargs)
    it.all_files.append(f)
    it.event('open', node, file=f, args=args, kwargs=kwargs)
    return f


def b_vars(it, args, kwargs, node):
    v = it.resolve(args[0]) if args else None
    if isinstance(v, ext.NamespaceV):
        if v.dict is None:
            v.dict = ext.parser_namespace(it, v.parser)
        return v.dict
    d = DictV(open_=True, desc=f'vars({v!r})')
    d.default = lambda it2, key, n, strict: SymV(it2.fresh(f'vars[{it2.py_key(key)!r}]'), 'any', origin=('vars', v, key))
    return d


def b_minmax(which):
    def f(it, args, kwargs, node):
        vals = args
        if len(args) == 1:
            v = it.resolve(args[0])
            if isinstance(v, (TupleV, ListV)) and getattr(v, 'items', None):
                vals = v.items
            else:
                return it._opaque_int(which, node)
        ls = [it.as_lin(v) for v in vals]
        if any(l is None for l in ls):
            it.note_unknown(node, f'{which} of non-int')
            return UnkV(which)
        best = ls[0]
        for l in ls[1:]:
            if which == 'min':
                if not it.decide_ge0(l - best):
                    best = l
            else:
                if not it.decide_ge0(best - l):
                    best = l
        return IntV(best)
    return f


def b_bool(it, args, kwargs, node):
    return ConstV(it.truth(args[0]) if args else False)


def b_slice(it, args, kwargs, node):
    ls = []
    for a in args:
        a = it.resolve(a)
        if isinstance(a, ConstV) and a.value is None:
            ls.append(None)
        else:
            ls.append(it.as_lin(a))
    if len(ls) == 1:
        return SliceV(None, ls[0])
    return SliceV(ls[0], ls[1])


def b_type(it, args, kwargs, node):
    v = it.resolve(args[0])
    if isinstance(v, (ObjV, ExcV)) and hasattr(v.cls, 'mro'):
        return ClassV(v.cls)
    return SymV(it.fresh('type'), 'any')


def b_hex(it, args, kwargs, node):
    l = it.as_lin(args[0])
    if l is None:
        return seqops.opaque_fresh(it, 'str', 'hex()')
    if it.decide_ge0(l):
        return seqops.concat(it, lit('0x'), seqops.numeral(it, l, 16, 0, '0'))
    return seqops.concat(it, lit('-0x'), seqops.numeral(it, -l, 16, 0, '0'))


def b_abs(it, args, kwargs, node):
    l = it.as_lin(args[0])
    if l is None:
        return UnkV('abs')
    return IntV(l if it.decide_ge0(l) else -l)


def b_anyall(it, args, kwargs, node):
    return ConstV(it._fact_fork('any/all', node, arg=args[0]))


def b_map(it, args, kwargs, node):
    if len(args) == 2 and not kwargs:
        return it.call_function(it.an.prog.synthetic('map1'), list(args), {}, node=node)
    it.note_unknown(node, 'map() with several iterables')
    return IterV(UnkV('map'), desc='map')


def b_filter(it, args, kwargs, node):
    f = it.resolve(args[0]) if args else None
    if len(args) == 2 and not (isinstance(f, ConstV) and f.value is None):
        return it.call_function(it.an.prog.synthetic('filter1'), list(args), {}, node=node)
    it.note_unknown(node, 'filter(None, ...)')
    return IterV(UnkV('filter'), desc='filter')


def b_object(it, args, kwargs, node):
    return SymV(it.fresh('object'), 'sentinel')


def b_iter(it, args, kwargs, node):
    if len(args) == 2:
        # iter(callable, sentinel): analysed through its python-level model (a generator)
        return it.call_function(it.an.prog.synthetic('iter_sentinel'), list(args), {}, node=node)
    return args[0]


def _next_of_generator(it, g, args, node):
    """next(<generator>[, default]): run the generator up to its first yield (the consumer takes the value and stops)"""
    cache = node.__dict__.setdefault('_next_for', None) if node is not None else None
    var = f'__nextval_{getattr(node, "lineno", 0)}_{getattr(node, "col_offset", 0)}'
    if cache is None:
        loop = ast.For(target=ast.Name(id=var, ctx=ast.Store()), iter=ast.Name(id='__gen', ctx=ast.Load()),
                       body=[ast.Assign(targets=[ast.Name(id=var + '_found', ctx=ast.Store())], value=ast.Constant(value=True)),
                             ast.Break()], orelse=[])
        if node is not None:
            ast.copy_location(loop, node)
            ast.fix_missing_locations(loop)
            node._next_for = loop
            fi = it.prog.node_owner.get(id(node))
            if fi is not None:
                for n in ast.walk(loop):
                    it.prog.node_owner.setdefault(id(n), fi)
        cache = loop
    fr = it.frames[-1]
    fr.locals[var + '_found'] = ConstV(False)
    it._for_generator(cache, g)
    found = fr.locals.pop(var + '_found', ConstV(False))
    val = fr.locals.pop(var, ConstV(None))
    if it.truth(found):
        return val
    if len(args) > 1:
        return args[1]
    raise Raised(ExcV(StopIteration, [], node=node, stack=it.stack, op='next() of an exhausted generator', definite=True))


def b_next(it, args, kwargs, node):
    v = it.resolve(args[0])
    if isinstance(v, GenCallV) and not v.started:
        return _next_of_generator(it, v, args, node)
    if isinstance(v, ObjV):
        r = v.cls.lookup('__next__')
        if r and r[0] == 'method':
            return it.call_function(r[1], [], {}, self_obj=v, node=node)
    default = args[1] if len(args) > 1 else None
    if isinstance(v, (ListV, TupleV)) and getattr(v, 'items', None) is not None:
        # first element of a concrete sequence (a comprehension over a small literal is evaluated exactly)
        if v.items:
            return v.items[0]
        if default is not None:
            return default
        raise Raised(ExcV(StopIteration, [], node=node, stack=it.stack, op='next() of an empty iterator', definite=True))
    e, ln = it.iter_element(v, node)
    empty_possible = not (ln is not None and it.store.prove_ge0(ln - 1)) or getattr(v, 'filtered', False)
    if default is not None:
        if not empty_possible:
            return e
        # some element (of the filtered kind) or the default: which one is not decided by this model
        if it.choose(2, 'next(): element / default') in (0, None):
            if getattr(v, 'filtered', False):
                it.note_unknown(node, 'next() over a filtered generator: the filter is not applied to the chosen element')
            if ln is not None:
                it.store.assume_ge0(ln - 1)
            return e
        if not getattr(v, 'filtered', False) and ln is not None:
            it.store.assume_eq0(ln)
        elif getattr(v, 'filtered', False):
            it.note_unknown(node, 'next() default of a filtered generator: no element passed the filter')
        return default
    it.may_raise(StopIteration, node, 'next()', wire=False)
    return e


def b_repr(it, args, kwargs, node):
    return seqops.opaque_fresh(it, 'str', 'repr', deps=tuple(args))


def make_set(it, lv):
    """the set of the elements of list value lv: equal elements collapse and the iteration order is not the insertion
    order.  Exact for distinct constants; otherwise a collection of 1..n generic elements."""
    if lv.items is not None:
        keys = [it.py_key(x) for x in lv.items]
        if all(k is not None for k in keys):
            seen, ded = set(), []
            for k, x in zip(keys, lv.items):
                try:
                    new = k not in seen
                    seen.add(k)
                except TypeError:
                    new = True
                if new:
                    ded.append(x)
            r = ListV(items=ded, desc='set')
            r.is_set = True
            return r
        n = len(lv.items)
        if n <= 1:
            r = ListV(items=list(lv.items), desc='set')
            r.is_set = True
            return r
        k = it.fresh('n')
        it.store.declare(k, 1, n, info='size of a set of values that may be equal')
        r = ListV(items=None, elem=it.join_many(lv.items), length=Lin.sym(k), desc='set')
        r.is_set = True
        r.set_of = list(lv.items)
        it.event('make-set', None, result=r, of=list(lv.items))
        return r
    k = it.fresh('n')
    hi = it.store.hi(lv.len) if lv.len is not None else None
    it.store.declare(k, 0, hi, info='size of a set')
    if lv.len is not None:
        it.store.assume_ge0(lv.len - Lin.sym(k))
    r = ListV(items=None, elem=lv.elem, length=Lin.sym(k), desc='set')
    r.is_set = True
    r.src = getattr(lv, 'src', None)
    return r


def b_set(it, args, kwargs, node):
    return make_set(it, b_list(it, args, kwargs, node))


def b_reversed(it, args, kwargs, node):
    v = it.resolve(args[0])
    if isinstance(v, ListV) and v.items is not None:
        return ListV(items=v.items[::-1])
    e, ln = it.iter_element(v, node)
    return IterV(e, src=v, desc='reversed', length=ln)


def b_ord(it, args, kwargs, node):
    s = it.fresh('t')
    it.store.declare(s, 0, 0x10ffff)
    return IntV(Lin.sym(s))


def b_chr(it, args, kwargs, node):
    return seqops.opaque(it, 'str', 1, 'chr')


def b_id(it, args, kwargs, node):
    return it._opaque_int('id', node)


BUILTINS = {
    'len': b_len, 'int': b_int, 'str': b_str, 'bytes': b_bytes, 'format': b_format, 'range': b_range,
    'sorted': b_sorted, 'isinstance': b_isinstance, 'issubclass': b_issubclass, 'hasattr': b_hasattr, 'getattr': b_getattr, 'setattr': b_setattr,
    'enumerate': b_enumerate, 'zip': b_zip, 'sum': b_sum, 'divmod': b_divmod, 'list': b_list, 'dict': b_dict,
    'tuple': b_tuple, 'print': b_print, 'open': b_open, 'vars': b_vars, 'min': b_minmax('min'),
    'max': b_minmax('max'), 'bool': b_bool, 'slice': b_slice, 'type': b_type, 'hex': b_hex, 'abs': b_abs,
    'any': b_anyall, 'all': b_anyall, 'iter': b_iter, 'object': b_object, 'map': b_map, 'filter': b_filter, 'next': b_next, 'repr': b_repr, 'set': b_set,
    'reversed': b_reversed, 'ord': b_ord, 'chr': b_chr, 'id': b_id, 'frozenset': b_set,
}
